"""Orchestrator: fan cases out to worker processes (symbolic execution + z3), validate the symbolic
torch model against real torch, replay counterexamples on the real code, write evidence, decide exit code.

Exit codes: 0 property held on everything explored (known findings only), 1 replayed violation,
2 harness error / encoding mismatch / too many inconclusive obligations.
"""
import os
import sys
import json
import time
import signal
import hashlib
import fnmatch
import tempfile
import subprocess
import traceback
import copy as _copy
import multiprocessing as mp

VERIF = os.path.dirname(os.path.dirname(os.path.abspath(__file__)))
REPO = os.environ.get('TV_REPO', '/repo')
REAL_PY = os.environ.get('TV_REAL_PY', '/venv/bin/python')


class CaseTimeout(BaseException):
    pass


def _alarm(signum, frame):
    raise CaseTimeout()


def _scen_modules():
    from .scen import lib  # noqa
    import importlib
    import pkgutil
    from . import scen
    for m in pkgutil.iter_modules(scen.__path__):
        importlib.import_module('tv.scen.' + m.name)
    return lib.SCEN


def _jsonable(x):
    try:
        json.dumps(x)
        return x
    except TypeError:
        return str(x)


def work(arg):
    """run one case symbolically. arg = (case, opts)"""
    case, opts = arg
    if case.get('opts'):
        opts = dict(opts, **case['opts'])
    t0 = time.time()
    out = {'case': case, 'paths': 0, 'obligations': 0, 'ok': 0, 'unknown': 0, 'unsupported': 0,
           'candidates': [], 'stats': None, 'error': None, 'path_samples': [], 'timeout': False,
           'unsupported_msgs': [], 'exceptions': 0, 'truncated': False}
    try:
        import resource
        try:
            resource.setrlimit(resource.RLIMIT_AS, (8 << 30, 8 << 30))
        except Exception:
            pass
        from . import loader
        from .explorer import Explorer, solve
        from .env import SymEnv
        tt = loader.load(shim=opts.get('shim', 'value'))
        SCEN = _scen_modules()
        fn = SCEN[case['scen']]
        ex = Explorer(logic=opts.get('logic', 'QF_NRA'), qtimeout_ms=opts.get('qtimeout_ms', 20000),
                      max_paths=opts.get('max_paths', 400))
        ex.xcheck_every = int(opts.get('xcheck_every', 0) or 0)
        holder = {}

        def body():
            E = SymEnv(tt, qtimeout_ms=opts.get('final_timeout_ms', 30000), scalar_mode=opts.get('scalar_mode', 'Z'))
            holder['E'] = E
            _setup(opts.get('setup') or {}, opts.get('scalar_mode', 'Z'))
            fn(E, _copy.deepcopy(case['s']))        # the code under test may write into argument lists
            return None

        signal.signal(signal.SIGALRM, _alarm)
        signal.alarm(int(opts.get('case_timeout_s', 600)))
        try:
            for res in ex.explore(body):
                E = holder.get('E')
                out['paths'] += 1
                if res.unsupported:
                    out['unsupported'] += 1
                    if len(out['unsupported_msgs']) < 3:
                        out['unsupported_msgs'].append(res.unsupported)
                    continue
                results = list(E.results) if E else []
                if res.exc is not None and 'CaseTimeout' in '%s %r %s' % (type(res.exc).__name__, res.exc, res.exc):
                    # the alarm went off inside a z3 / ctypes call, which re-raises it as a ctypes ArgumentError: this is the case
                    # time-out, not an exception of the code under test
                    raise CaseTimeout()
                if res.exc is not None:
                    out['exceptions'] += 1
                    expected = case.get('expect_exc')
                    et = type(res.exc).__name__
                    if not (expected and (expected == '*' or et in expected)):
                        st_, m = solve(res.pc, ex.logic, opts.get('final_timeout_ms', 30000), ex.stats)
                        r = {'label': 'exception', 'status': 'violated' if st_ == 'sat' else 'unknown',
                             'detail': '%s: %s' % (et, str(res.exc)[:200])}
                        if st_ == 'sat' and E is not None:
                            r['inputs'] = E.concretize(m)
                        r['tb'] = ''.join(traceback.format_exception(type(res.exc), res.exc, res.exc.__traceback__)[-3:])[-600:]
                        results.append(r)
                for r in results:
                    out['obligations'] += 1
                    if r['status'] == 'ok':
                        out['ok'] += 1
                    elif r['status'] == 'unknown':
                        out['unknown'] += 1
                    else:
                        out['candidates'].append({'label': r['label'], 'detail': r.get('detail'),
                                                  'inputs': r.get('inputs'), 'tb': r.get('tb')})
                if len(out['path_samples']) < 2:
                    out['path_samples'].append({'decisions': len(res.decisions),
                                                'labels': [r['label'] + ':' + r['status'] for r in results][:12]})
        finally:
            signal.alarm(0)
        out['truncated'] = ex.truncated
        out['stats'] = ex.stats.as_dict()
    except (CaseTimeout, MemoryError):
        out['timeout'] = True
    except BaseException as e:  # harness error
        out['error'] = '%s: %s\n%s' % (type(e).__name__, e, traceback.format_exc()[-1500:])
    out['wall_s'] = round(time.time() - t0, 3)
    return out


def _setup(cfg, scalar_mode='Z'):
    """per-path configuration of the factorization model etc. cfg: dict"""
    from . import factor, symtorch
    factor.MODE = cfg.get('factor_mode', 'exact')
    factor.SIGNS = bool(cfg.get('signs', False))
    symtorch.SELECT_MODE = cfg.get('select_mode', 'fork')
    symtorch.SCALAR_MODE = scalar_mode
    from . import autograd
    autograd.ENABLED = bool(cfg.get('autograd', False))
    symtorch.set_fresh(symtorch.havoc_fresh if cfg.get('fresh') == 'havoc' else None)


def exact_trace(arg):
    """translator validation, python3-vt side: run the scenario on seeded rational constants through symtorch"""
    case, seed, opts = arg
    if case.get('opts'):
        opts = dict(opts, **case['opts'])
    try:
        from . import loader
        from .env import ExactEnv
        from .explorer import Explorer
        tt = loader.load(shim=opts.get('shim', 'value'))
        SCEN = _scen_modules()
        holder = {}

        def body():
            E = ExactEnv(tt, seed, scalar_mode=opts.get('scalar_mode', 'Z'))
            holder['E'] = E
            _setup(opts.get('setup') or {}, opts.get('scalar_mode', 'Z'))
            SCEN[case['scen']](E, _copy.deepcopy(case['s']))

        ex = Explorer(logic=None, qtimeout_ms=5000, max_paths=2)
        ex.exact = True
        n = 0
        out = None
        for res in ex.explore(body):
            n += 1
            E = holder['E']
            if res.unsupported:
                return {'skip': res.unsupported}
            out = {'outputs': E.outputs, 'results': E.results, 'exc': type(res.exc).__name__ if res.exc is not None else None}
        if n != 1 or out is None:
            return {'skip': 'not a single concrete path (%d)' % n}
        return out
    except BaseException as e:
        return {'skip': 'harness: %s: %s' % (type(e).__name__, e)}


def run_real(jobs, timeout=1800):
    """run jobs [{id, scen, s, inputs|seed}] under the real interpreter; returns {id: result}"""
    if not jobs:
        return {}
    td = tempfile.mkdtemp(prefix='tv_real_')
    try:
        jf = os.path.join(td, 'jobs.json')
        of = os.path.join(td, 'out.json')
        json.dump(jobs, open(jf, 'w'))
        env = dict(os.environ)
        env['PYTHONPATH'] = REPO + os.pathsep + VERIF
        env['PYTHONDONTWRITEBYTECODE'] = '1'
        p = subprocess.run([REAL_PY, '-m', 'tv.real_main', jf, of], cwd=VERIF, env=env,
                           stdout=subprocess.PIPE, stderr=subprocess.STDOUT, timeout=timeout)
        if not os.path.exists(of):
            raise RuntimeError('real-torch runner failed: ' + p.stdout.decode()[-2000:])
        res = json.load(open(of))
        return {r['id']: r for r in res}
    finally:
        import shutil
        shutil.rmtree(td, ignore_errors=True)


def compare_traces(ex, re_):
    """exact (Fractions via symtorch) vs real torch outputs; returns list of disagreement strings"""
    dis = []
    if (ex.get('exc') is None) != (re_.get('exc') is None):
        dis.append('exception mismatch: sym=%s real=%s' % (ex.get('exc'), re_.get('exc')))
        return dis
    eo, ro = ex.get('outputs', []), re_.get('outputs', [])
    if len(eo) != len(ro):
        dis.append('output count %d vs %d' % (len(eo), len(ro)))
        return dis
    for a, b in zip(eo, ro):
        if a['label'] != b['label']:
            dis.append('label %s vs %s' % (a['label'], b['label']))
            continue
        if 'cond' in a or 'cond' in b:
            if a.get('cond') != b.get('cond'):
                dis.append('%s: cond %s vs %s' % (a['label'], a.get('cond'), b.get('cond')))
            continue
        if a['shape'] != b['shape']:
            dis.append('%s: shape %s vs %s' % (a['label'], a['shape'], b['shape']))
            continue
        for u, v in zip(a['lhs'], b['lhs']):
            uu = complex(*u) if isinstance(u, list) else complex(u)
            vv = complex(*v) if isinstance(v, list) else complex(v)
            if abs(uu - vv) > 1e-6 * max(1.0, abs(uu)):
                dis.append('%s: value %s vs %s' % (a['label'], uu, vv))
                break
    return dis


def load_known(pid):
    p = os.path.join(VERIF, 'known_findings.json')
    if not os.path.exists(p):
        return []
    data = json.load(open(p))
    return [e for e in data.get('findings', []) if e.get('property') == pid and e.get('status') == 'open']


def default_sig(case, label):
    s = case['s']
    parts = [case['scen']]
    for k in ('op', 'kind', 'how', 'skind', 'variant', 'prelude', 'history'):
        if k in s:
            parts.append('%s=%s' % (k, s[k]))
    parts.append(label)
    return ':'.join(parts)


def run_check(pid, cases, tier, seed, opts, meta):
    opts = dict(opts)
    opts.setdefault('xcheck_every', 40 if tier == 'quick' else 15)
    """meta: dict(functions=[...], bounds=str, outside=str, assumptions=[...], level=..., sig=callable|None,
    tv_max=int, explanation=str)"""
    t0 = time.time()
    nproc = int(os.environ.get('TV_PROCS', '16'))
    sigf = meta.get('sig') or default_sig
    results = []
    ctx = mp.get_context('fork')
    with ctx.Pool(nproc, maxtasksperchild=opts.get('maxtasks', 50)) as pool:
        for r in pool.imap_unordered(work, [(c, opts) for c in cases], chunksize=1):
            results.append(r)
        # translator validation, exact side
        tv_cases = meta.get('tv_cases')
        if tv_cases is None:
            pool_ = [c for c in cases if not c.get('no_tv')]          # (cases whose recorded outputs carry the sign freedom of a factorization are not comparable)
            step = max(1, len(pool_) // max(1, meta.get('tv_max', 40)))
            tv_cases = pool_[::step][:meta.get('tv_max', 40)]
        exact = pool.map(exact_trace, [(c, seed + 1, opts) for c in tv_cases], chunksize=1)

    errors = [r for r in results if r['error']]
    tot = {k: sum(r[k] for r in results) for k in ('paths', 'obligations', 'ok', 'unknown', 'unsupported', 'exceptions')}
    timeouts = [r for r in results if r['timeout']]
    truncated = [r for r in results if r['truncated']]

    # ---- real-torch jobs: translator validation + replays in one subprocess
    jobs = []
    for i, (c, e) in enumerate(zip(tv_cases, exact)):
        if 'skip' not in e:
            jobs.append({'id': 'tv%d' % i, 'scen': c['scen'], 's': c['s'], 'seed': seed + 1})
    cands = []
    seen_sig = {}
    for r in results:
        for cnd in r['candidates']:
            sg = sigf(r['case'], cnd['label'])
            cnd['sig'] = sg
            cnd['case'] = r['case']
            # replay at most 3 candidates per signature (all are recorded)
            seen_sig[sg] = seen_sig.get(sg, 0) + 1
            if cnd.get('inputs') is not None and seen_sig[sg] <= 3:
                cnd['job'] = 'rp%d' % len(cands)
                jobs.append({'id': cnd['job'], 'scen': r['case']['scen'], 's': r['case']['s'], 'inputs': cnd['inputs']})
            cands.append(cnd)
    harness_msgs = []
    try:
        real = run_real(jobs)
    except Exception as e:
        real = {}
        harness_msgs.append('real-torch runner: %s' % e)

    tv_ok, tv_bad, tv_skipped = 0, [], 0
    for i, (c, e) in enumerate(zip(tv_cases, exact)):
        if 'skip' in e:
            tv_skipped += 1
            continue
        rr = real.get('tv%d' % i)
        if rr is None:
            continue
        dis = compare_traces(e, rr)
        if dis:
            tv_bad.append({'case': c, 'disagreement': dis[:3]})
        else:
            tv_ok += 1

    # ---- classify candidates
    known = load_known(pid)
    violations, known_hits, mismatches, unreplayed = [], {}, [], 0
    unconfirmed = []
    rdir = os.path.join(os.environ.get('TV_REPLAY_DIR', os.path.join(VERIF, 'replays')), pid)
    by_sig = {}
    for cnd in cands:
        by_sig.setdefault(cnd['sig'], []).append(cnd)
    for sg, lst in sorted(by_sig.items()):
        reproduced = None
        tried = 0
        for cnd in lst:
            if 'job' not in cnd:
                continue
            rr = real.get(cnd['job'])
            if rr is None:
                continue
            tried += 1
            bad = [x for x in rr.get('results', []) if x['status'] == 'violated']
            if rr.get('precondition_failed'):
                continue
            if bad:
                reproduced = (cnd, rr, bad)
                break
        if reproduced is None:
            if tried and meta.get('overapprox'):
                # havoc-data checks explore a superset of the feasible paths (comparison outcomes are free): a candidate on such a path that
                # no replay reproduces is expected and is not an encoding error; it is recorded and counted as inconclusive
                unconfirmed.append({'sig': sg, 'n': len(lst), 'detail': lst[0].get('detail'), 'case': lst[0]['case']})
            elif tried:
                mismatches.append({'sig': sg, 'n': len(lst), 'detail': lst[0].get('detail'), 'case': lst[0]['case']})
            else:
                unreplayed += 1
                mismatches.append({'sig': sg, 'n': len(lst), 'detail': 'no model / not replayed: %s' % lst[0].get('detail'),
                                   'case': lst[0]['case']})
            continue
        cnd, rr, bad = reproduced
        kf = [k for k in known if fnmatch.fnmatchcase(sg, k['sig'])]
        if kf:
            known_hits.setdefault(kf[0]['id'], {'entry': kf[0], 'n': 0, 'example': sg})
            known_hits[kf[0]['id']]['n'] += len(lst)
            continue
        os.makedirs(rdir, exist_ok=True)
        h = hashlib.sha1(json.dumps([cnd['case'], cnd['inputs']], sort_keys=True).encode()).hexdigest()[:12]
        path = os.path.join(rdir, h + '.json')
        json.dump({'property': pid, 'sig': sg, 'scen': cnd['case']['scen'], 's': cnd['case']['s'], 'inputs': cnd['inputs'],
                   'symbolic_detail': cnd.get('detail'), 'real_results': bad[:5]}, open(path, 'w'), indent=1)
        violations.append({'sig': sg, 'replay': path, 'n': len(lst), 'real': bad[:2]})

    # ---- verdict
    for k in known_hits.values():
        print('KNOWN-FINDING: property=%s %s (%s; %d counterexample(s) this run, e.g. %s)' % (
            pid, k['entry']['id'], k['entry']['what'], k['n'], k['example']))
    for v in violations:
        print('VIOLATION property=%s replay=%s' % (pid, v['replay']))
        print('  signature: %s   real-code result: %s' % (v['sig'], json.dumps(v['real'])[:300]))
    for m in mismatches:
        print('ENCODING-MISMATCH: %s (%s) case=%s' % (m['sig'], m['detail'], json.dumps(m['case'])[:300]))
    for m in unconfirmed:
        print('UNCONFIRMED-CANDIDATE (over-approximated path, no replay reproduced it; counted inconclusive): %s (%s) case=%s' % (m['sig'], m['detail'], json.dumps(m['case'])[:300]))
    for b in tv_bad:
        print('TRANSLATOR-VALIDATION-MISMATCH: %s %s' % (json.dumps(b['case'])[:300], b['disagreement']))
    for e in errors[:5]:
        print('HARNESS-ERROR: case=%s\n%s' % (json.dumps(e['case'])[:300], e['error']))
    for m in harness_msgs:
        print('HARNESS-ERROR: ' + m)
    inconclusive = tot['unknown'] + tot['unsupported'] + len(timeouts) + sum(m['n'] for m in unconfirmed)
    if inconclusive:
        print('INCONCLUSIVE %d (solver unknown %d, unsupported paths %d, case time-outs %d%s)' % (
            inconclusive, tot['unknown'], tot['unsupported'], len(timeouts), (', unconfirmed candidates %d' % sum(m['n'] for m in unconfirmed)) if unconfirmed else ''))
        for r in results:
            if r['unsupported_msgs']:
                print('  unsupported: %s in %s' % (r['unsupported_msgs'][0], json.dumps(r['case'])[:200]))
                break

    stats = {}
    for r in results:
        if r['stats']:
            for k, v in r['stats'].items():
                stats[k] = stats.get(k, 0) + v
    wall = time.time() - t0
    samples = []
    for r in results[:: max(1, len(results) // 6)][:6]:
        samples.append({'case': r['case'], 'paths': r['paths'], 'obligations': r['obligations'], 'discharged_unsat': r['ok'],
                        'path_samples': r['path_samples'], 'wall_s': r['wall_s'], 'solver_s': (r['stats'] or {}).get('solver_s')})
    evidence = {
        'property_id': pid, 'tier': tier, 'seed': seed, 'level': meta.get('level', 'model_checking'),
        'coverage': {
            'states': max(tot['paths'], 0), 'transitions': int(stats.get('queries', 0)) + int(stats.get('cache_hits', 0)),
            'traces_validated_against_impl': tv_ok + sum(1 for v in violations) + sum(1 for _ in known_hits),
            'samples': samples,
            'cases': len(cases), 'paths': tot['paths'], 'obligations': tot['obligations'], 'discharged_unsat': tot['ok'],
            'solver_queries': int(stats.get('queries', 0)), 'feasibility_cache_hits': int(stats.get('cache_hits', 0)),
            'solver_seconds': round(stats.get('solver_s', 0.0), 2),
            'inconclusive': {'solver_unknown': tot['unknown'], 'unsupported_paths': tot['unsupported'],
                             'case_timeouts': len(timeouts), 'path_budget_truncated_cases': len(truncated)},
            'exception_paths': tot['exceptions'],
            'second_solver': {'binary': '/usr/bin/z3 4.8.12 on exported SMT-LIB2', 'queries_rechecked': int(stats.get('xcheck_done', 0)), 'agree': int(stats.get('xcheck_agree', 0)),
                              'inconclusive': int(stats.get('xcheck_inconclusive', 0)), 'disagree': int(stats.get('xcheck_disagree', 0))},
            'translator_validation': {'traces_ok': tv_ok, 'disagreements': len(tv_bad), 'skipped': tv_skipped},
            'counterexamples': {'candidates': len(cands), 'replayed_violations': len(violations),
                                'known_findings': {k: v['n'] for k, v in known_hits.items()},
                                'encoding_mismatches': len(mismatches), 'unconfirmed_on_overapproximated_paths': [m['sig'] for m in unconfirmed]},
            'functions_encoded': meta.get('functions', []),
            'bounds': meta.get('bounds', ''), 'outside_bounds': meta.get('outside', ''),
            'technique': 'symbolic execution of /repo source over a symbolic torch/numpy boundary; every verdict is a z3 query (fresh solver per query); counterexamples replayed on real torch',
            'explanation': meta.get('explanation', ''),
        },
        'assumptions': meta.get('assumptions', []),
        'wall_s': round(wall, 2),
        'violations': len(violations),
    }
    evdir = os.environ.get('TV_EVIDENCE_DIR', os.path.join(VERIF, 'evidence'))
    os.makedirs(evdir, exist_ok=True)
    json.dump(evidence, open(os.path.join(evdir, pid + '.json'), 'w'), indent=1, default=str)
    print('%s %s: cases=%d paths=%d obligations=%d unsat=%d candidates=%d violations=%d known=%d mismatches=%d tv_ok=%d tv_bad=%d inconclusive=%d wall=%.1fs solver=%.1fs' % (
        pid, tier, len(cases), tot['paths'], tot['obligations'], tot['ok'], len(cands), len(violations), len(known_hits),
        len(mismatches), tv_ok, len(tv_bad), inconclusive, wall, stats.get('solver_s', 0.0)))
    slow = sorted(results, key=lambda r: -r['wall_s'])[:3]
    print('slowest cases: ' + '; '.join('%.1fs %s' % (r['wall_s'], json.dumps(r['case'])[:160]) for r in slow))
    if stats.get('xcheck_disagree', 0):
        print('SOLVER-DISAGREEMENT: %d re-checked queries got a different verdict from z3 4.8.12' % stats['xcheck_disagree'])
    if violations:
        return 1
    if errors or harness_msgs or mismatches or tv_bad or stats.get('xcheck_disagree', 0):
        return 2
    if tot['obligations'] == 0:
        print('HARNESS-ERROR: no obligations were generated')
        return 2
    if inconclusive > 0.10 * max(1, tot['obligations']):
        return 2
    return 0
