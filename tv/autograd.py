"""Autograd model for symtorch (A-scalars): see DESIGN 4 C15.

 * requires_grad_(True) makes a tensor a *leaf*: every entry becomes a distinct symbol (entries that are expressions
   are replaced by fresh symbols tied to their value by a side constraint);
 * detach(), item(), numpy(), tensor(t) return value-equal *cut* copies (fresh symbols c_i with c_i == expr_i), which
   are independent variables for differentiation - exactly what cutting the graph means;
 * backward() on a one-element tensor differentiates its exact expression with respect to every leaf entry and
   accumulates into leaf.grad.
Trusted: torch's own autograd engine (the derivative of each primitive), saved-tensor version checks (not modelled)."""
import numpy as np
import z3

from .explorer import cur, unsupported
from . import apoly as A

ENABLED = False


def _leaves():
    ctx = cur()
    l = getattr(ctx, '_ad_leaves', None)
    if l is None or getattr(ctx, '_ad_path', None) is not ctx.pc:
        l = []
        ctx._ad_leaves = l
        ctx._ad_path = ctx.pc
    return l


def _is_plain_symbol(v):
    if not isinstance(v, A.P) or not v.is_monomial():
        return None
    (m, c), = v.t.items()
    if c == 1 and len(m) == 1 and m[0][1] == 1:
        return m[0][0]
    return None


def cut_value(v, name='cut'):
    """fresh symbol equal in value to v, independent for differentiation"""
    if not isinstance(v, A.P):
        c = A._num(v)
        if c is None:
            unsupported('autograd model needs A-scalars (got %s)' % type(v).__name__)
        # constants stay constants
        return v
    if _is_plain_symbol(v) is not None and A.tab().kind[_is_plain_symbol(v)] == 'cut':
        return v
    T = A.tab()
    i = T.new(name, 'cut')
    T.defn[i] = v
    s = A.P.sym(i)
    ctx = cur()
    A.register_side(v.symbols())
    ctx.pc.append(T.z3v[i] == v.to_z3() if not A._has_neg(v) else T.z3v[i] * _den(v) == v.cleared().to_z3())
    return s


def _den(v):
    """the positive monomial that cleared() multiplies by"""
    T = A.tab()
    mins = {}
    for m in v.t:
        for s, e in m:
            if e < 0:
                mins[s] = min(mins.get(s, 0), e)
    mono = A.P({tuple(sorted((s, -e) for s, e in mins.items())): 1})
    return mono.to_z3()


def cut_array(a):
    out = np.empty(a.shape, dtype=object)
    for ix in np.ndindex(*a.shape):
        out[ix] = cut_value(a[ix])
    if a.ndim == 0:
        out[()] = cut_value(a[()])
    return out


def make_leaf(t):
    """entries -> distinct symbols (in place, so views keep seeing the same storage)"""
    seen = set()
    T = A.tab()
    it = np.ndindex(*t.a.shape) if t.a.ndim else [()]
    for ix in it:
        v = t.a[ix]
        s = _is_plain_symbol(v) if isinstance(v, A.P) else None
        if s is not None and s not in seen and T.kind[s] in ('real', 'pos', 'cut'):
            seen.add(s)
            continue
        if not isinstance(v, A.P):
            c = A._num(v)
            if c is None:
                unsupported('autograd model needs A-scalars')
            v = A.P.const(c) if c != 0 else A.P({})
        i = T.new('leaf', 'cut')
        T.defn[i] = v if v.t else 0
        ctx = cur()
        if v.t:
            A.register_side(v.symbols())
            ctx.pc.append(T.z3v[i] == v.cleared().to_z3() if not A._has_neg(v) else T.z3v[i] * _den(v) == v.cleared().to_z3())
        else:
            ctx.pc.append(T.z3v[i] == 0)
        t.a[ix] = A.P.sym(i)
        seen.add(i)
    l = _leaves()
    if not any(x is t for x in l):
        l.append(t)


def backward(t):
    from . import symtorch as st
    if t.a.size != 1:
        raise RuntimeError('grad can be implicitly created only for scalar outputs')
    if not (t.requires_grad or t.grad_fn is not None):
        raise RuntimeError('element 0 of tensors does not require grad and does not have a grad_fn')
    expr = t.a.reshape(())[()]
    for leaf in _leaves():
        if not leaf.requires_grad:
            continue
        g = np.empty_like(leaf.a)          # torch creates the gradient with the strides of a (dense) leaf: views of the gradient behave like views of the leaf
        it = np.ndindex(*leaf.a.shape) if leaf.a.ndim else [()]
        for ix in it:
            s = _is_plain_symbol(leaf.a[ix])
            if s is None:
                unsupported('leaf entry is not a symbol (in-place change of a leaf?)')
            d = expr.diff(s) if isinstance(expr, A.P) else 0
            g[ix] = d if (isinstance(d, A.P) and d.t) else (0 if isinstance(d, A.P) else d)
        if leaf.grad is None:
            leaf.grad = st.Tensor(g, leaf.dtype)
        else:
            acc = np.empty_like(leaf.a)
            acc[...] = leaf.grad.a + g
            leaf.grad = st.Tensor(acc, leaf.dtype)


def grad_of(expr, leaf):
    """harness side: d expr / d leaf entries (array), expr a one-element tensor"""
    e = expr.a.reshape(())[()]
    g = np.empty(leaf.a.shape, dtype=object)
    it = np.ndindex(*leaf.a.shape) if leaf.a.ndim else [()]
    for ix in it:
        s = _is_plain_symbol(leaf.a[ix])
        if s is None:
            unsupported('reference gradient: leaf entry is not a symbol')
        d = e.diff(s) if isinstance(e, A.P) else 0
        g[ix] = d if (isinstance(d, A.P) and d.t) else 0
    return g
