"""merge summaries / notes into seeded/*/meta.json (fields required by the brief: property, what it needs to manifest, what was run)"""
import os
import json
import glob
VERIF = os.path.dirname(os.path.dirname(os.path.abspath(__file__)))
summ = json.load(open(os.path.join(VERIF, 'seeded', 'SUMMARIES.json')))
notes = json.load(open(os.path.join(VERIF, 'seeded', 'NOTES.json')))
for d in sorted(glob.glob(os.path.join(VERIF, 'seeded', '*'))):
    mp = os.path.join(d, 'meta.json')
    if not os.path.exists(mp):
        continue
    m = json.load(open(mp))
    k = os.path.basename(d)
    m['breaks_property'] = m.get('property')
    m['change_and_trigger'] = summ.get(k, '')
    if k in notes:
        m['note'] = notes[k]
    json.dump(m, open(mp, 'w'), indent=1)
print('ok')
