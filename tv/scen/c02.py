"""C02 scenarios: rounding."""
from .lib import scenario, dense, prod, abs2sum
from .c01 import unfolding_generic_rank, _or, DELTA

ROUNDOFF2 = 1e-26    # (relative roundoff)^2 allowance so that a replay in float64 never fails on rounding alone


def so_tt_input(E, name, N, R, patterns, M=None, dtype='float64', sym_cores=None, phase_idx=None):
    """TT object whose cores are sparse; cores listed in sym_cores (default: all) carry symbolic positive magnitudes,
    the others fixed magnitudes from {1,2,3}. patterns[k] = list of index tuples of core k"""
    cores = []
    for k in range(len(N)):
        shp = [R[k], N[k], R[k + 1]] if M is None else [R[k], M[k], N[k], R[k + 1]]
        pat = [tuple(p) for p in patterns[k]]
        if sym_cores is None or k in sym_cores:
            cores.append(E.pos_tensor('%s%d_' % (name, k), shp, pat, dtype, phase_idx=(phase_idx[k] if phase_idx else None)))
        else:
            c = E.tn.zeros(shp, dtype=E.dt(dtype))
            for j, p in enumerate(pat):
                if dtype.startswith('complex'):
                    from ..values import PHASES
                    ph = PHASES[(j + k) % len(PHASES)]
                    c[p] = E.cconst((1 + (sum(p) + k) % 3) * ph[0], (1 + (sum(p) + k) % 3) * ph[1])
                else:
                    c[p] = 1 + (sum(p) + k) % 3
            cores.append(c)
    return E.tt.TT(cores), cores


def dense_pattern(N, R, patterns, M=None):
    """index tuples of the dense tensor that have a non-zero path through the sparse cores"""
    d = len(N)
    front = {0: [()]}          # rank index -> list of multi-indices reaching it
    for k in range(d):
        nxt = {}
        for p in patterns[k]:
            r, rr = p[0], p[-1]
            mid = tuple(p[1:-1])
            for pre in front.get(r, []):
                nxt.setdefault(rr, []).append(pre + (mid,))
        front = nxt
    out = set()
    for pre in front.get(0, []):
        if M is None:
            out.add(tuple(m[0] for m in pre))
        else:
            out.add(tuple(m[0] * N[i] + m[1] for i, m in enumerate(pre)))     # interleaved (m_i, n_i) -> one mode
    return sorted(out)


@scenario
def tt_round(E, s):
    tn = E.tn
    N, R, M = s['N'], s['R'], s.get('M')
    d = len(N)
    if s.get('general'):
        from .lib import tt_input
        x, xc = tt_input(E, 'x', N, R, s.get('dtype', 'float64'), M)       # arbitrary sign-free entries (rank-1 profiles: every QR/SVD input is a row or a column)
    else:
        x, xc = so_tt_input(E, 'x', N, R, s['patterns'], M, dtype=s.get('dtype', 'float64'), sym_cores=s.get('sym_cores'), phase_idx=s.get('phase_idx'))
    if s.get('plus_zero'):
        # the same tensor stored with inflated ranks: a structurally zero rank block in front of / behind the data (sum with the zero tensor)
        z = E.tt.zeros(list(N)) if M is None else E.tt.zeros([(m, n) for m, n in zip(M, N)])
        x = (z + x) if s['plus_zero'] == 'front' else (x + z)
        xc = list(x.cores)
        R = [int(r) for r in x.R]
    if s.get('prelude') == 'round_set_core':
        # an earlier rounding of the same object followed by a core replacement must not leak into this rounding
        x.round(E.pos_scalar('eps0', hi=1))
        k = s.get('set_core', 0)
        shp = [int(v) for v in xc[k].shape]
        x.set_core(k, E.pos_tensor('newcore', shp, [tuple(p) for p in s['patterns'][k]], s.get('dtype', 'float64')))
        xc = list(x.cores)
    elif s.get('prelude') == 'round':
        x.round(E.pos_scalar('eps0', hi=1))
    elif s.get('prelude') == 'round_chain':
        # the operand is itself the outcome of a rounding (eps0 = 0: nothing is cut, the object keeps its value): what is asked of the
        # second rounding (rank caps, accuracy) is asked relative to that object
        x = x.round(0.0) if s.get('eps0') == 'zero' else x.round(E.pos_scalar('eps0', hi=1))
        xc = list(x.cores)
        R = [int(r) for r in x.R]
    if s.get('eps') == 'default':
        eps = None
    elif s.get('eps') == 'zero':
        eps = 0.0
    else:
        eps = E.scalar('eps', 'float')
        E.assume(eps >= 0)
        E.assume(eps < 1)
    kw = {}
    rmax = s.get('rmax')
    if rmax == 'sym':
        kw['rmax'] = E.int('rmax', 1, s['rmax_hi'])
    elif rmax is not None:
        kw['rmax'] = rmax
    xd = dense(E, xc)
    metas = (list(x.N), list(x.R), [list(c.shape) for c in x.cores])
    lst = x.cores
    tensors = list(x.cores)
    rm0 = list(kw['rmax']) if isinstance(kw.get('rmax'), list) else None
    if eps is None:
        y = x.round(**kw)
    else:
        y = x.round(eps, **kw)
    if rm0 is not None:
        E.true('rmax_argument_intact', kw['rmax'] == rm0)
    E.true('is_tt', isinstance(y, E.tt.TT))
    E.true('new_object', y is not x and y.cores is not lst)
    E.true('kind', y.is_ttm == (M is not None))
    E.true('shape', list(y.N) == list(N) and (M is None or list(y.M) == list(M)))
    Ry = [int(r) for r in y.R]
    E.true('boundary_ranks', Ry[0] == 1 and Ry[-1] == 1 and len(Ry) == d + 1)
    E.true('cores_match_ranks', all(list(c.shape)[0] == Ry[k] and list(c.shape)[-1] == Ry[k + 1] for k, c in enumerate(y.cores)))
    modes = list(N) if M is None else [m * n for m, n in zip(M, N)]
    chain = s.get('prelude') == 'round_chain'
    dp = dense_pattern(N, R, s['patterns'], M) if not (s.get('general') or chain) else None
    for k in range(1, d):
        E.true('rank_not_raised_%d' % k, Ry[k] <= R[k])
        if (eps is None or eps != 0.0) and not chain:
            ur = unfolding_generic_rank(modes, dp, k) if dp is not None else 1
            if eps is None:
                E.true('rank_le_unfolding_%d' % k, Ry[k] <= max(ur, 1))
            else:
                E.true('rank_le_unfolding_%d' % k, _or(eps <= 0, Ry[k] <= max(ur, 1)))
        if rmax == 'sym':
            E.true('rank_le_rmax_%d' % k, Ry[k] <= kw['rmax'])
        elif rmax is not None:
            E.true('rank_le_rmax_%d' % k, Ry[k] <= (rmax[k] if isinstance(rmax, list) else rmax))
    # operand untouched
    E.true('operand_meta', (list(x.N), list(x.R), [list(c.shape) for c in x.cores]) == metas)
    E.true('operand_list', x.cores is lst and all(a is b for a, b in zip(x.cores, tensors)))
    E.eq('operand_value', dense(E, x.cores), xd)
    # accuracy
    yd = dense(E, y.cores)
    diff = yd - xd
    err2 = abs2sum(E, diff)
    nrm2 = abs2sum(E, xd)
    e = 1e-12 if (eps is None or s.get('eps') == 'zero') else eps
    bound_ok = err2 <= ((e * e) * (1 + DELTA) + ROUNDOFF2) * nrm2
    maxrank = max([1] + R[1:-1])
    if rmax is None:
        E.true('accuracy', bound_ok)
    elif rmax == 'sym':
        E.true('accuracy_when_rmax_not_binding', _or(kw['rmax'] < maxrank, bound_ok))
    else:
        rl = rmax[1:-1] if isinstance(rmax, list) else [rmax]
        if all(r >= maxrank for r in rl):
            E.true('accuracy', bound_ok)
    if rmax is not None:
        # a cap binds only where it is reached: if every returned rank stays below its cap, the truncation was decided by eps alone
        caps = [(kw['rmax'] if rmax == 'sym' else (rmax[k] if isinstance(rmax, list) else rmax)) for k in range(1, d)]
        reached = False
        for k in range(1, d):
            reached = _or(reached, Ry[k] >= caps[k - 1])
        E.true('accuracy_when_no_cap_is_reached', _or(reached, bound_ok))
