"""C01 scenarios: TT-SVD accuracy and rank bounds."""
from .lib import scenario, dense, prod, abs2sum

DELTA = 1e-9     # relative slack for "up to roundoff"


def _or(a, b):
    if a is True or b is True:
        return True
    if a is False:
        return b
    if b is False:
        return a
    return a | b


@scenario
def rank_chop_kernel(E, s):
    """rank_chop(s, thr) for a symbolic sorted non-negative vector and a symbolic threshold"""
    n = s['n']
    sv = E.nparray('s', [n], 'float64')
    thr = E.scalar('thr', 'float')
    for i in range(n):
        E.assume(sv[i] >= 0)
    for i in range(n - 1):
        E.assume(sv[i] >= sv[i + 1])
    if s.get('thr_positive'):
        E.assume(thr > 0)
    import torchtt._decomposition as dec
    r = dec.rank_chop(sv, thr)
    r = int(r)
    E.true('range', 1 <= r <= n)
    tail = 0
    for i in range(r, n):
        tail = tail + sv[i] * sv[i]
    tot = 0
    for i in range(n):
        tot = tot + sv[i] * sv[i]
    E.true('tail_within_threshold', _or(thr <= 0, tail <= thr * thr * (1 + DELTA)))
    E.true('nonpositive_threshold_keeps_all', _or(thr > 0, _or(tot == 0, r == n)))
    E.true('zero_vector_rank_one', _or(tot != 0, r == 1))
    for k in range(1, n):
        if r > k:
            # rank r keeps s[k]: it must not be a zero singular value when thr > 0
            E.true('no_zero_sv_kept_%d' % k, _or(thr <= 0, sv[k] != 0))


def unfolding_generic_rank(N, pattern, k):
    """rank of the k-th unfolding for generic positive values on this sparsity pattern (max matching size)."""
    rows = {}
    for ix in pattern:
        r = tuple(ix[:k])
        c = tuple(ix[k:])
        rows.setdefault(r, set()).add(c)
    # maximum bipartite matching (generic rank of a sparse matrix = term rank)
    match = {}

    def try_row(r, seen):
        for c in rows[r]:
            if c in seen:
                continue
            seen.add(c)
            if c not in match or try_row(match[c], seen):
                match[c] = r
                return True
        return False
    cnt = 0
    for r in rows:
        if try_row(r, set()):
            cnt += 1
    return cnt


@scenario
def ttsvd(E, s):
    """TT(dense, eps, rmax) on sparse dense inputs with symbolic positive magnitudes (structurally-orthogonal class)"""
    tn = E.tn
    shape = s['shape']                      # dense shape handed to the constructor
    pattern = [tuple(p) for p in s['pattern']]
    entry = s.get('entry', 'torch')
    if s.get('general'):
        # arbitrary sign-free entries (every unfolding of these shapes has a single row or a single column)
        A = E.nparray('A', shape, s.get('dtype', 'float64')) if entry == 'numpy' else E.tensor('A', shape, s.get('dtype', 'float64'))
        pattern = [tuple(ix) for ix in _all_index(shape)]
    else:
        A = E.pos_tensor('A', shape, pattern, s.get('dtype', 'float64'), 'numpy' if entry == 'numpy' else 'torch')
    eps = E.pos_scalar('eps', hi=1)
    kw = {}
    rmax = s.get('rmax')
    if rmax == 'sym':
        kw['rmax'] = E.int('rmax', 1, s['rmax_hi'])
    elif rmax is not None:
        kw['rmax'] = list(rmax) if isinstance(rmax, list) else rmax
        if s.get('rmax_np') and isinstance(rmax, list):
            # the caps come from another object's rank list, which holds numpy integers after a truncation
            kw['rmax'] = [E.np.int64(v) if 0 < i < len(rmax) - 1 else v for i, v in enumerate(rmax)]
    if s.get('ttm'):
        M, N = s['M'], s['N']
        T = E.tt.TT(A, [(m, n) for m, n in zip(M, N)], eps=eps, **kw)
        E.true('is_ttm', T.is_ttm)
        E.true('shape', list(T.M) == list(M) and list(T.N) == list(N))
        target = list(M) + list(N)
        d = len(N)
        modes = [m * n for m, n in zip(M, N)]
    else:
        Nt = s.get('N')
        if Nt is not None:
            T = E.tt.TT(A, Nt, eps=eps, **kw)
        else:
            T = E.tt.TT(A, eps=eps, **kw)
            Nt = list(shape)
        E.true('is_tt', not T.is_ttm)
        E.true('shape', list(T.N) == list(Nt))
        target = list(Nt)
        d = len(Nt)
        modes = list(Nt)
    if isinstance(rmax, list):
        E.true('rmax_argument_intact', [int(v) for v in kw['rmax']] == list(s['rmax']) and (s.get('rmax_np') or all(type(v) is int for v in kw['rmax'])))
    R = [int(r) for r in T.R]
    E.true('rank_list_length', len(R) == d + 1)
    E.true('boundary_ranks', R[0] == 1 and R[-1] == 1)
    E.true('cores_match_ranks', all(list(c.shape)[0] == R[k] and list(c.shape)[-1] == R[k + 1] for k, c in enumerate(T.cores)))
    # unfolding ranks (in the order in which the decomposition sees the modes)
    if s.get('ttm'):
        # interleaved pattern positions
        ip = []
        for ix in pattern_in(shape, pattern, list(M) + list(N)):
            ip.append(tuple(ix[i] * N[i] + ix[d + i] for i in range(d)))
        upat, umodes = ip, modes
    else:
        upat, umodes = pattern_in(shape, pattern, target), modes
    for k in range(1, d):
        ur = unfolding_generic_rank(umodes, upat, k)
        E.true('rank_le_unfolding_%d' % k, R[k] <= max(ur, 1))
        if rmax is not None and rmax != 'sym':
            rk = rmax[k] if isinstance(rmax, list) else rmax
            E.true('rank_le_rmax_%d' % k, R[k] <= rk)
        elif rmax == 'sym':
            E.true('rank_le_rmax_%d' % k, R[k] <= kw['rmax'])
    # accuracy (only promised when rmax is not binding)
    Ad = tn.reshape(E.tn.tensor(A) if entry == 'numpy' else A, target)
    rec = dense(E, T.cores)
    diff = rec - Ad
    err2 = abs2sum(E, diff)
    nrm2 = abs2sum(E, Ad)
    maxrank = max([1] + [min(prod(umodes[:k]), prod(umodes[k:])) for k in range(1, d)])
    ro2 = 1e-26 if s.get('dtype', 'float64') in ('float64', 'complex128') else 4e-12       # (relative roundoff)^2 of the dtype: replay slack only
    bound_ok = err2 <= ((eps * eps) * (1 + DELTA) + ro2) * nrm2
    if rmax is None:
        E.true('accuracy', bound_ok)
    elif rmax == 'sym':
        E.true('accuracy_when_rmax_not_binding', _or(kw['rmax'] < maxrank, bound_ok))
    else:
        rl = rmax[1:-1] if isinstance(rmax, list) else [rmax]
        if all(r >= maxrank for r in rl):
            E.true('accuracy', bound_ok)
    if rmax is not None:
        # a cap binds only where it is reached: if every returned rank stays below its cap, the truncation was decided by eps alone
        caps = [(kw['rmax'] if rmax == 'sym' else (rmax[k] if isinstance(rmax, list) else rmax)) for k in range(1, d)]
        reached = False
        for k in range(1, d):
            reached = _or(reached, R[k] >= caps[k - 1])
        E.true('accuracy_when_no_cap_is_reached', _or(reached, bound_ok))


def _all_index(shape):
    out = [()]
    for n in shape:
        out = [o + (i,) for o in out for i in range(n)]
    return out


def pattern_in(shape, pattern, target):
    """re-index pattern positions of an array of `shape` into the row-major equivalent array of shape `target`"""
    if list(shape) == list(target):
        return [tuple(p) for p in pattern]
    out = []
    for ix in pattern:
        lin = 0
        for i, n in zip(ix, shape):
            lin = lin * n + i
        t = []
        for n in reversed(target):
            t.append(lin % n)
            lin //= n
        out.append(tuple(reversed(t)))
    return out
