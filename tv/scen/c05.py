"""C05 scenarios (shape level): every reachable TT object is structurally well formed.

Inductive step: the pre-state is one to three TT objects built by the constructor from cores whose mode sizes and
ranks are symbolic integers in [1,B] (by the constructor's validation: every well-formed state); one public operation
is applied; every object alive afterwards (operands and results) must satisfy the invariant again."""
from .lib import scenario
from .ops import OPS
from .c18 import s_tt, all_eq, attempt


def wf(E, label, x):
    """the structural invariant, on symbolic shapes"""
    cores = x.cores
    d = len(cores)
    nd = cores[0].dim()
    E.true(label + ':core_ndims', nd in (3, 4) and all(c.dim() == nd for c in cores))
    if not (nd in (3, 4) and all(c.dim() == nd for c in cores)):
        return
    chain = True
    for k in range(d - 1):
        chain = chain & (cores[k].shape[-1] == cores[k + 1].shape[0])
    E.true(label + ':ranks_chain', chain)
    E.true(label + ':boundary_ranks', (cores[0].shape[0] == 1) & (cores[-1].shape[-1] == 1))
    E.true(label + ':R', all_eq(list(x.R), [cores[0].shape[0]] + [c.shape[-1] for c in cores]))
    E.true(label + ':is_ttm', x.is_ttm == (nd == 4))
    if nd == 4:
        E.true(label + ':M', all_eq(list(x.M), [c.shape[1] for c in cores]))
        E.true(label + ':N', all_eq(list(x.N), [c.shape[2] for c in cores]))
        shp = list(x.shape)
        ok = len(shp) == d
        r = True
        if ok:
            for k in range(d):
                r = r & (shp[k][0] == cores[k].shape[1]) & (shp[k][1] == cores[k].shape[2])
        E.true(label + ':shape_attr', r if ok else False)
        f = x.full()
        E.true(label + ':full_shape', all_eq(list(f.shape), [c.shape[1] for c in cores] + [c.shape[2] for c in cores]))
    else:
        E.true(label + ':N', all_eq(list(x.N), [c.shape[1] for c in cores]))
        E.true(label + ':shape_attr', all_eq(list(x.shape), [c.shape[1] for c in cores]))
        f = x.full()
        E.true(label + ':full_shape', all_eq(list(f.shape), [c.shape[1] for c in cores]))


def _ctor_from_metadata_then_set_core(E, x, s):
    """a second object is built from x's reported shape list and then changed in place: x must stay consistent
    (public operations only: the constructor with a shape argument, set_core)"""
    tt = E.tt
    if x.is_ttm:
        shape = [(m, n) for m, n in zip(x.M, x.N)]
        dense_shape = list(x.M) + list(x.N)
        y = tt.TT(E.stensor('full', dense_shape), shape)
        y.set_core(0, E.stensor('nc', [1, E.dim('nm', 1, s['B']), E.dim('nn', 1, s['B']), y.R[1]]))
    else:
        Nx = x.N
        y = tt.TT(E.stensor('full', list(Nx)), Nx)
        y.set_core(0, E.stensor('nc', [1, E.dim('nn', 1, s['B']), y.R[1]]))
    return y


EXTRA = {
    'ctor_from_N_then_set_core': (['any'], lambda E, o, s: _ctor_from_metadata_then_set_core(E, o[0], s)),
    'set_core': (['any'], lambda E, o, s: o[0].set_core(s.get('k', 0), E.stensor('nc', ([o[0].R[s.get('k', 0)], E.dim('nm', 1, s['B']), E.dim('nn', 1, s['B']), o[0].R[s.get('k', 0) + 1]]
                                                                                       if o[0].is_ttm else [o[0].R[s.get('k', 0)], E.dim('nn', 1, s['B']), o[0].R[s.get('k', 0) + 1]])))),
    'set_core_free': (['any'], lambda E, o, s: o[0].set_core(s.get('k', 0), E.stensor('nc', [E.dim('f%d' % i, 1, s['B']) for i in range(4 if o[0].is_ttm else 3)]))),
    'set_core_ndim': (['any'], lambda E, o, s: o[0].set_core(s.get('k', 0), E.stensor('nc', [o[0].R[s.get('k', 0) % len(o[0].N)]] + [E.dim('g%d' % i, 1, s['B']) for i in range(s['ndim'] - 2)] + [o[0].R[s.get('k', 0) % len(o[0].N) + 1]]))),
    'reduce_dims': (['any'], lambda E, o, s: o[0].reduce_dims()),
    'reduce_dims_exclude': (['any'], lambda E, o, s: o[0].reduce_dims([0])),
    'round': (['any'], lambda E, o, s: o[0].round(1e-3)),
    'round_rmax': (['any'], lambda E, o, s: o[0].round(1e-3, 2)),
    'reshape_merge': (['tt'], lambda E, o, s: E.tt.reshape(o[0], [_prod(o[0].N)])),
    'permute_rev': (['any'], lambda E, o, s: E.tt.permute(o[0], list(reversed(range(len(o[0].N)))))),
    'qtt_to_tens_all': (['tt'], lambda E, o, s: o[0].qtt_to_tens([_prod(o[0].N)])),
    'ctor_dense': (['tt'], lambda E, o, s: E.tt.TT(E.stensor('dense', list(o[0].N)), eps=1e-3)),
    'ctor_cores_mixed_34': (['tt'], lambda E, o, s: E.tt.TT([E.stensor('k0', [1, o[0].N[0], E.dim('q', 1, s['B'])]), E.stensor('k1', [E.dim('q', 1, s['B']), E.dim('u', 1, s['B']), E.dim('v', 1, s['B']), 1])])),
    'ctor_cores_mixed_43': (['tt'], lambda E, o, s: E.tt.TT([E.stensor('k0', [1, o[0].N[0], E.dim('v', 1, s['B']), E.dim('q', 1, s['B'])]), E.stensor('k1', [E.dim('q', 1, s['B']), E.dim('u', 1, s['B']), 1])])),
    'ctor_cores_mixed_343': (['tt'], lambda E, o, s: E.tt.TT([E.stensor('k0', [1, o[0].N[0], 2]), E.stensor('k1', [2, 2, 2, 2]), E.stensor('k2', [2, 3, 1])])),
    'ctor_dense_reshaped': (['tt'], lambda E, o, s: E.tt.TT(E.stensor('dense', [_prod(o[0].N)]), list(o[0].N), eps=1e-3)),
    'ctor_numpy': (['tt'], lambda E, o, s: E.tt.TT(E.stensor('dense', list(o[0].N)).numpy(), eps=1e-3)),
    'ctor_numpy_reshaped': (['tt'], lambda E, o, s: E.tt.TT(E.stensor('dense', [_prod(o[0].N)]).numpy(), list(o[0].N), eps=1e-3)),
    'ctor_numpy_merged': (['tt'], lambda E, o, s: E.tt.TT(E.stensor('dense', list(o[0].N)).numpy(), [_prod(o[0].N)], eps=1e-3)),
    'ctor_numpy_ttm': (['ttm'], lambda E, o, s: E.tt.TT(E.stensor('dense', list(o[0].M) + list(o[0].N)).numpy(), [(m, n) for m, n in zip(o[0].M, o[0].N)], eps=1e-3)),
    'ctor_dense_ttm': (['ttm'], lambda E, o, s: E.tt.TT(E.stensor('dense', list(o[0].M) + list(o[0].N)), [(m, n) for m, n in zip(o[0].M, o[0].N)], eps=1e-3)),
    'dmrg_hadamard': (['tt', 'same'], lambda E, o, s: E.tt.dmrg_hadamard(o[0], o[1], eps=1e-3, nswp=2)),
    'dmrg_hadamard_guess': (['tt', 'same', 'same'], lambda E, o, s: E.tt.dmrg_hadamard(o[0], o[1], o[2], eps=1e-3, nswp=2)),
    'fast_matvec': (['ttm', 'tt@N'], lambda E, o, s: o[0].fast_matvec(o[1], eps=1e-3, nswp=2, use_cpp=False)),
    'zeros_like': (['any'], lambda E, o, s: E.tt.zeros([(m, n) for m, n in zip(o[0].M, o[0].N)] if o[0].is_ttm else list(o[0].N))),
    'ones_like': (['any'], lambda E, o, s: E.tt.ones([(m, n) for m, n in zip(o[0].M, o[0].N)] if o[0].is_ttm else list(o[0].N))),
    'eye_like': (['tt'], lambda E, o, s: E.tt.eye(list(o[0].N))),
    'random': (['tt'], lambda E, o, s: E.tt.random(list(o[0].N), list(o[0].R))),
    'randn': (['tt'], lambda E, o, s: E.tt.randn(list(o[0].N), list(o[0].R))),
}


def _prod(xs):
    r = 1
    for x in xs:
        r = r * x
    return r


@scenario
def wf_step(E, s):
    name = s['op']
    kinds, f = OPS[name] if name in OPS else EXTRA[name]
    d, B = s['d'], s['B']
    first = kinds[0]
    k0 = 'ttm' if (first in ('ttm', 'ttm_sq') or (first == 'any' and s.get('ttm'))) else 'tt'
    x, N, M, R = s_tt(E, 'x', d, k0, B)
    if first == 'ttm_sq':
        x, N, M, R = s_tt(E, 'x', d, 'ttm', B, same={'N': N, 'M': N})
        M = N
    if first == 'tt@M':
        # first operand is a tensor living on the rows of the operator that follows
        pass
    ops = [x]
    lists = [x.cores]
    A = None
    for i, k in enumerate(kinds[1:], 1):
        nm = 'yzw'[i - 1]
        if k == 'same':
            y, _, _, _ = s_tt(E, nm, d, k0, B, same={'N': N, 'M': M} if k0 == 'ttm' else {'N': N})
        elif k == 'tt@N':
            if A is not None:
                y, _, _, _ = s_tt(E, nm, d, 'tt', B, same={'N': A[0]})
            else:
                y, _, _, _ = s_tt(E, nm, d, 'tt', B, same={'N': N})
        elif k == 'ttm':
            # operator whose rows match the first (tensor) operand
            y, yN, yM, _ = s_tt(E, nm, d, 'ttm', B, same={'M': N})
            A = (yN, yM)
        elif k == 'ttm@':
            y, _, _, _ = s_tt(E, nm, d, 'ttm', B, same={'M': N})
        elif k == 'tt':
            y, _, _, _ = s_tt(E, nm, d, 'tt', B, same={'N': N})
        else:
            raise ValueError(k)
        ops.append(y)
        lists.append(y.cores)
    ok, res, exc = attempt(E, lambda: f(E, ops, s))
    E.note('returned', ok)
    if s.get('then_set_core') and ok and isinstance(res, E.tt.TT):
        # history: the result is changed in place afterwards (a core with other mode sizes); whatever the result shares with the
        # operands (size lists, core lists) would make them inconsistent
        r0, r1 = res.R[0], res.R[1]
        nc = [r0, E.dim('tm', 1, B), E.dim('tn', 1, B), r1] if res.is_ttm else [r0, E.dim('tn', 1, B), r1]
        res.set_core(0, E.stensor('tc', nc, E.dtname(res.cores[0])))
    for i, o in enumerate(ops):
        wf(E, 'operand%d' % i, o)
    if ok and isinstance(res, E.tt.TT):
        wf(E, 'result', res)
        E.true('result_own_core_list', all(res.cores is not l for l in lists))
    elif ok and isinstance(res, (list, tuple)):
        for j, r in enumerate(res):
            if isinstance(r, E.tt.TT):
                wf(E, 'result%d' % j, r)


@scenario
def op_preserve_shape(E, s):
    """C06 at the shape level for routines whose values need a factorization: operands keep their core list, the very
    same core tensors, and their metadata (ranks, shape, kind, dtype)."""
    name = s['op']
    kinds, f = EXTRA[name] if name in EXTRA else OPS[name]
    d, B = s['d'], s['B']
    first = kinds[0]
    k0 = 'ttm' if (first in ('ttm',) or (first == 'any' and s.get('ttm'))) else 'tt'
    x, N, M, R = s_tt(E, 'x', d, k0, B)
    ops = [x]
    for i, k in enumerate(kinds[1:], 1):
        nm = 'yzw'[i - 1]
        if k == 'same':
            y, _, _, _ = s_tt(E, nm, d, k0, B, same={'N': N, 'M': M} if k0 == 'ttm' else {'N': N})
        elif k == 'tt@N':
            y, _, _, _ = s_tt(E, nm, d, 'tt', B, same={'N': N})
        else:
            raise ValueError(k)
        ops.append(y)
    lists = [o.cores for o in ops]
    tensors = [list(o.cores) for o in ops]
    metas = [(bool(o.is_ttm), list(o.N), list(o.M) if o.is_ttm else None, list(o.R), [list(c.shape) for c in o.cores], [str(c.dtype) for c in o.cores]) for o in ops]
    ok, res, exc = attempt(E, lambda: f(E, ops, s))
    for i, o in enumerate(ops):
        E.true('same_core_list_%d' % i, o.cores is lists[i] and len(o.cores) == len(tensors[i]) and all(a is b for a, b in zip(o.cores, tensors[i])))
        m = (bool(o.is_ttm), list(o.N), list(o.M) if o.is_ttm else None, list(o.R), [list(c.shape) for c in o.cores], [str(c.dtype) for c in o.cores])
        same = (m[0] == metas[i][0]) and all_eq(m[1], metas[i][1]) and (m[2] is None or all_eq(m[2], metas[i][2])) and all_eq(m[3], metas[i][3]) and m[5] == metas[i][5]
        for a, b in zip(m[4], metas[i][4]):
            same = same & all_eq(a, b)
        E.true('meta_%d' % i, same)
    if ok and isinstance(res, E.tt.TT):
        E.true('result_own_list', all(res.cores is not l for l in lists))
