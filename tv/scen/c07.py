"""C07 scenarios: norm, dot, sum, bilinear_form equal their dense values."""
from .lib import scenario, dense, tt_input, prod


def _abs2sum(E, xd):
    tn = E.tn
    if xd.is_complex():
        re, im = tn.real(xd), tn.imag(xd)
        return tn.sum(re * re + im * im)        # literally a sum of squares
    return tn.sum(xd * xd)


@scenario
def tt_norm(E, s):
    """norm(), plain and squared, tracked (Gram chain) and untracked (QR sweep)"""
    x, xc = tt_input(E, 'x', s['N'], s['R'], s['dtype'], s.get('M'), via=s.get('via'))
    if s.get('plus_zero'):
        # the same tensor stored with an exactly zero rank block in front of / behind the data (sum with the zero tensor)
        M_ = s.get('M')
        z = E.tt.zeros(list(s['N'])) if M_ is None else E.tt.zeros([(m, n) for m, n in zip(M_, s['N'])])
        x = (z + x) if s['plus_zero'] == 'front' else (x + z)
    if s.get('tracked') and s.get('history'):
        for c in x.cores:
            c.requires_grad_(True)
    if s.get('history') == 'norm_set_core_norm':
        # the reduction is asked for, one core is replaced through the public setter, and it is asked for again:
        # the second answer must be the value of the tensor the object represents now
        x.norm(squared=bool(s.get('first_squared')))
        k = s.get('k', 0)
        nc = E.tensor('nc', list(xc[k].shape), s['dtype'])
        x.set_core(k, nc)
        xc = list(xc)
        xc[k] = nc
    xd = dense(E, xc)
    ssq = _abs2sum(E, xd)
    if s.get('tracked'):
        for c in x.cores:
            c.requires_grad_(True)
    if s.get('tracked') and not s.get('squared'):
        # proof structuring (cut): first z3 shows Gram chain == sum |x_i|^2, then both are abstracted by one symbol
        p = x.norm(squared=True).reshape([])
        if p.is_complex():
            E.lemma('gram_imag_zero', E.tn.imag(p), E.tn.zeros([], dtype=ssq.dtype))
            p = E.tn.real(p)
        E.lemma('gram_eq', p, ssq)
    r = x.norm(squared=bool(s.get('squared')))
    E.true('is_tensor', E.tn.is_tensor(r))
    E.true('numel', r.numel() == 1)
    r = r.reshape([])
    if s.get('squared'):
        if r.is_complex():
            E.eq('imag_zero', E.tn.imag(r), E.tn.zeros([], dtype=ssq.dtype))
            r = E.tn.real(r)
        E.eq('value', r, ssq)
    else:
        E.true('nonneg', (r >= 0))
        E.eq('value_sq', r * r, ssq)


@scenario
def tt_dot(E, s):
    tn = E.tn
    a, ac = tt_input(E, 'a', s['Na'], s['Ra'], s['dtype'], via=s.get('via'))
    b, bc = tt_input(E, 'b', s['Nb'], s['Rb'], s['dtype'], via=s.get('via'))
    ad, bd = dense(E, ac), dense(E, bc)
    axis = s.get('axis')
    if axis is None:
        r = E.tt.dot(a, b)
        ref = tn.sum(ad * tn.conj(bd))
        E.true('is_tensor', tn.is_tensor(r) and r.numel() == 1)
        E.eq('value', r.reshape([]), ref)
    else:
        ax_arg = list(axis)
        r = E.tt.dot(a, b, ax_arg)
        E.true('axis_argument_intact', ax_arg == list(axis))
        ref = tn.tensordot(ad, tn.conj(bd), dims=(list(axis), list(range(len(axis)))))
        if isinstance(r, E.tt.TT):
            E.eq('value', dense(E, r.cores), ref)
        else:
            E.true('is_tensor', tn.is_tensor(r))
            E.eq('value', r, ref)


@scenario
def tt_sum(E, s):
    tn = E.tn
    d = len(s['N'])
    x, xc = tt_input(E, 'x', s['N'], s['R'], s['dtype'], s.get('M'), via=s.get('via'))
    xd = dense(E, xc)
    idx = s.get('index')
    if idx is None:
        r = x.sum()
        ref = tn.sum(xd)
        E.true('is_tensor', tn.is_tensor(r) and r.numel() == 1)
        E.eq('value', r.reshape([]), ref)
        return
    arg = idx[0] if s.get('as_int') else list(idx)
    r = x.sum(arg)
    if not s.get('as_int'):
        E.true('index_argument_intact', arg == list(idx) and all(type(v) is int for v in arg))
    dims = [i % d for i in idx] + ([d + i % d for i in idx] if 'M' in s else [])
    ref = tn.sum(xd, dims) if dims else xd
    if isinstance(r, E.tt.TT):
        E.eq('value', dense(E, r.cores), ref)
    else:
        E.true('is_tensor', tn.is_tensor(r))
        E.eq('value', r, ref)
    E.eq('operand_intact', dense(E, x.cores), xd)


@scenario
def tt_bilinear(E, s):
    tn = E.tn
    d = len(s['N'])
    x, xc = tt_input(E, 'x', s['M'], s['Rx'], s['dtype'], via=s.get('via'))
    A, Ac = tt_input(E, 'A', s['N'], s['RA'], s['dtype'], s['M'], via=s.get('via'))
    y, yc = tt_input(E, 'y', s['N'], s['Ry'], s['dtype'], via=s.get('via'))
    r = E.tt.bilinear_form(x, A, y)
    Ay = tn.tensordot(dense(E, Ac), dense(E, yc), dims=(list(range(d, 2 * d)), list(range(d))))
    ref = tn.sum(tn.conj(dense(E, xc)) * Ay)
    E.true('is_tensor', tn.is_tensor(r) and r.numel() == 1)
    E.eq('value', r.reshape([]), ref)
