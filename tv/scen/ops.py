"""Catalogue of public operations used by the operand-preservation (C06), well-formedness (C05) and
copy (C19) scenarios.  Each entry: operand kinds + a function (E, operands, s) -> result(s)."""
from .lib import scenario, dense, tt_input, prod, check_wellformed


def _sc(E, s):
    return E.scalar('a', s.get('skind', 'float'))


def _aug(x, op, a):
    """augmented assignment on a second name for the object: y = x; y op= a.  None of these is a documented in-place operation,
    so the name is rebound to a new object and x keeps its value"""
    y = x
    if op == '*':
        y *= a
    elif op == '+':
        y += a
    elif op == '-':
        y -= a
    elif op == '/':
        y /= a
    return y


def _idx_last(x, v):
    d = len(x.N)
    base = [slice(None)] * (d - 1) + [v]
    return tuple(base * 2) if x.is_ttm else tuple(base)


def _idx_mixed(x):
    d = len(x.N)
    base = [0 if i % 2 == 0 else slice(None) for i in range(d)]
    return tuple(base * 2) if x.is_ttm else tuple(base)


def _idx_all_slices(x, first):
    d = len(x.N)
    if x.is_ttm:
        return tuple([first] + [slice(None)] * (d - 1)) * 2
    return tuple([first] + [slice(None)] * (d - 1))


OPS = {
    # name: (operand kinds, function)
    'add': (['tt', 'tt'], lambda E, o, s: o[0] + o[1]),
    'sub': (['tt', 'tt'], lambda E, o, s: o[0] - o[1]),
    'mul': (['tt', 'tt'], lambda E, o, s: o[0] * o[1]),
    'add_ttm': (['ttm', 'ttm'], lambda E, o, s: o[0] + o[1]),
    'sub_ttm': (['ttm', 'ttm'], lambda E, o, s: o[0] - o[1]),
    'mul_ttm': (['ttm', 'ttm'], lambda E, o, s: o[0] * o[1]),
    'add_scalar': (['any'], lambda E, o, s: o[0] + _sc(E, s)),
    'radd_scalar': (['any'], lambda E, o, s: _sc(E, s) + o[0]),
    'sub_scalar': (['any'], lambda E, o, s: o[0] - _sc(E, s)),
    'rsub_scalar': (['any'], lambda E, o, s: _sc(E, s) - o[0]),
    'mul_scalar': (['any'], lambda E, o, s: o[0] * _sc(E, s)),
    'rmul_scalar': (['any'], lambda E, o, s: _sc(E, s) * o[0]),
    'mul_zero': (['any'], lambda E, o, s: o[0] * 0),
    'div_scalar': (['any'], lambda E, o, s: o[0] / _nz(E, s)),
    'imul_scalar': (['any'], lambda E, o, s: _aug(o[0], '*', _sc(E, s))),
    'imul_const': (['any'], lambda E, o, s: _aug(o[0], '*', 2.5)),
    'iadd_scalar': (['any'], lambda E, o, s: _aug(o[0], '+', _sc(E, s))),
    'isub_scalar': (['any'], lambda E, o, s: _aug(o[0], '-', _sc(E, s))),
    'idiv_const': (['any'], lambda E, o, s: _aug(o[0], '/', 4.0)),
    'iadd_tt': (['any', 'same'], lambda E, o, s: _aug(o[0], '+', o[1])),
    'imul_tt': (['any', 'same'], lambda E, o, s: _aug(o[0], '*', o[1])),
    'neg': (['any'], lambda E, o, s: -o[0]),
    'pos': (['any'], lambda E, o, s: +o[0]),
    'matvec': (['ttm', 'tt@N'], lambda E, o, s: o[0] @ o[1]),
    'vecmat': (['tt@M', 'ttm'], lambda E, o, s: o[0] @ o[1]),
    'matmat': (['ttm', 'ttm@'], lambda E, o, s: o[0] @ o[1]),
    'matdense': (['ttm'], lambda E, o, s: o[0] @ E.tensor('xd', [2] + list(o[0].N))),
    'kron': (['any', 'same'], lambda E, o, s: o[0] ** o[1]),
    'kron_fn': (['any', 'same'], lambda E, o, s: E.tt.kron(o[0], o[1])),
    'kron_none': (['any'], lambda E, o, s: E.tt.kron(o[0], None)),
    'kron_none_left': (['any'], lambda E, o, s: E.tt.kron(None, o[0])),
    'pow_none': (['any'], lambda E, o, s: o[0] ** None),
    'full': (['any'], lambda E, o, s: o[0].full()),
    'numpy': (['any'], lambda E, o, s: o[0].numpy()),
    'sum_all': (['any'], lambda E, o, s: o[0].sum()),
    'sum_first': (['any'], lambda E, o, s: o[0].sum(0)),
    'sum_last': (['any'], lambda E, o, s: o[0].sum([len(o[0].N) - 1])),
    'sum_middle': (['any'], lambda E, o, s: o[0].sum([len(o[0].N) // 2])),
    'sum_two': (['any'], lambda E, o, s: o[0].sum([0, len(o[0].N) - 1])),
    'getitem_int_last': (['any'], lambda E, o, s: o[0][_idx_last(o[0], 0)]),
    'getitem_mixed': (['any'], lambda E, o, s: o[0][_idx_mixed(o[0])]),
    'to_ttm': (['tt'], lambda E, o, s: o[0].to_ttm()),
    't': (['ttm'], lambda E, o, s: o[0].t()),
    'conj': (['any'], lambda E, o, s: o[0].conj()),
    'clone': (['any'], lambda E, o, s: o[0].clone()),
    'detach': (['any'], lambda E, o, s: o[0].detach()),
    'to_dtype': (['any'], lambda E, o, s: o[0].to(dtype=E.dt('float32'))),
    'to_same': (['any'], lambda E, o, s: o[0].to(dtype=E.dt(s.get('dtype', 'float64')))),
    'cpu': (['any'], lambda E, o, s: o[0].cpu()),
    'getitem_slices': (['any'], lambda E, o, s: o[0][_idx_all_slices(o[0], slice(0, 1))]),
    'getitem_int': (['any'], lambda E, o, s: o[0][_idx_all_slices(o[0], 0)]),
    'getitem_ellipsis': (['tt'], lambda E, o, s: o[0][...]),
    'apply_mask': (['tt'], lambda E, o, s: o[0].apply_mask(E.tn.zeros([2, len(o[0].N)], dtype=E.tn.int64))),
    'cat': (['tt', 'same'], lambda E, o, s: E.tt.cat((o[0], o[1]), 0)),
    'pad': (['any'], lambda E, o, s: E.tt.pad(o[0], tuple((1, 1) for _ in o[0].N), 0.0)),
    'diag': (['tt'], lambda E, o, s: E.tt.diag(o[0])),
    'diag_ttm': (['ttm_sq'], lambda E, o, s: E.tt.diag(o[0])),
    'mprod': (['tt'], lambda E, o, s: o[0].mprod(E.tensor('F', [2, o[0].N[0]]), 0)),
    'mprod_list': (['tt'], lambda E, o, s: o[0].mprod([E.tensor('F', [2, o[0].N[-1]])], [len(o[0].N) - 1])),
    'dot': (['tt', 'same'], lambda E, o, s: E.tt.dot(o[0], o[1])),
    'dot_axis': (['tt'], lambda E, o, s: E.tt.dot(o[0], E.tt.TT([E.tensor('bq', [1, o[0].N[0], 1])]), [0])),
    'bilinear': (['tt@M', 'ttm', 'tt@N'], lambda E, o, s: E.tt.bilinear_form(o[0], o[1], o[2])),
    'norm_tracked': (['any'], lambda E, o, s: _tracked_norm(E, o[0])),
    'ctor_clone_list': (['any'], lambda E, o, s: E.tt.TT(list(o[0].cores))),
    'riem_projection': (['any', 'same'], lambda E, o, s: E.tt.manifold.riemannian_projection(o[0], o[1])),
    'round_default': (['any'], lambda E, o, s: o[0].round()),
    'norm_untracked': (['any'], lambda E, o, s: o[0].norm()),
    'norm_sq_untracked': (['any'], lambda E, o, s: o[0].norm(True)),
    'numel': (['any'], lambda E, o, s: E.tt.numel(o[0])),
    'repr': (['any'], lambda E, o, s: repr(o[0])),
}


def _nz(E, s):
    a = _sc(E, s)
    E.assume(a != 0)
    return a


def _tracked_norm(E, x):
    y = x.detach()
    for c in y.cores:
        c.requires_grad_(True)
    return y.norm(True)


def build_operands(E, kinds, s):
    """s: N, R (first operand), M optional, N2/R2 for second operands."""
    N, R, M = s['N'], s['R'], s.get('M')
    d = len(N)
    R2 = s.get('R2', R)
    R3 = s.get('R3', R)
    ops, cores = [], []

    def mk(name, N_, R_, M_=None):
        dts = s.get('dtypes')          # one dtype per operand (operands of different precision / kind of number)
        x, c = tt_input(E, name, N_, R_, dts[len(ops)] if dts else s.get('dtype', 'float64'), M_, via=s.get('via'))
        ops.append(x)
        cores.append(c)

    Mx = M if M is not None else [n % 2 + 1 for n in N]
    for i, k in enumerate(kinds):
        nm = 'xyzw'[i]
        Rk = [R, R2, R3][min(i, 2)]
        if k == 'tt':
            mk(nm, N, Rk)
        elif k == 'ttm':
            mk(nm, N, Rk, Mx)
        elif k == 'ttm_sq':
            mk(nm, N, Rk, N)
        elif k == 'any':
            if M is not None:
                mk(nm, N, Rk, M)
            else:
                mk(nm, N, Rk)
        elif k == 'same':
            if ops[0].is_ttm:
                mk(nm, N, Rk, list(ops[0].M))
            else:
                mk(nm, N, Rk)
        elif k == 'tt@N':
            mk(nm, N, Rk)
        elif k == 'tt@M':
            mk(nm, Mx, Rk)
        elif k == 'ttm@':
            mk(nm, [n % 3 + 1 for n in N], Rk, N)     # rows must match the first operator's columns
        else:
            raise ValueError(k)
    return ops, cores


def meta_of(x):
    return (bool(x.is_ttm), list(x.N), list(x.M) if x.is_ttm else None, list(x.R), len(x.cores), [str(c.dtype) for c in x.cores],
            [list(c.shape) for c in x.cores])


@scenario
def op_preserve(E, s):
    """C06: run one public operation; every operand must keep dense value, ranks, shape, dtype (and core-list identity)."""
    kinds, f = OPS[s['op']]
    ops, cores = build_operands(E, kinds, s)
    before = [dense(E, c) for c in cores]
    metas = [meta_of(x) for x in ops]
    lists = [x.cores for x in ops]
    tensors = [list(x.cores) for x in ops]
    if s.get('may_raise'):
        # combinations the library may refuse (operands of different dtypes): refused or not, the operands stay as they were
        try:
            res = f(E, ops, s)
        except Exception as exc:          # noqa
            res = None
            E.note('raised', type(exc).__name__)
    else:
        res = f(E, ops, s)
    for i, x in enumerate(ops):
        E.true('meta_%d' % i, meta_of(x) == metas[i])
        E.true('same_core_list_%d' % i, x.cores is lists[i] and all(a is b for a, b in zip(x.cores, tensors[i])))
        E.eq('value_%d' % i, dense(E, x.cores), before[i])
    if isinstance(res, E.tt.TT):
        E.true('result_own_list', all(res.cores is not l for l in lists))
    E.note('result_type', type(res).__name__)


INPLACE = {
    'set_core_first': lambda E, x: x.set_core(0, E.tensor('nc', list(x.cores[0].shape)) if not x.is_ttm else E.tensor('nc', list(x.cores[0].shape))),
    'set_core_resize': lambda E, x: x.set_core(len(x.N) - 1, E.tensor('nc', [x.R[-2], x.cores[-1].shape[1] + 1, 1] if not x.is_ttm
                                                                    else [x.R[-2], x.cores[-1].shape[1] + 1, x.cores[-1].shape[2], 1])),
    'reduce_dims': lambda E, x: x.reduce_dims(),
}

VIEW_OPS = ['getitem_slices', 'getitem_int', 't', 'conj', 'sum_first', 'sum_last', 'to_ttm', 'detach', 'to_same', 'cpu', 'ctor_clone_list', 'clone',
            'neg', 'mul_scalar', 'add']


@scenario
def op_history(E, s):
    """C06 second family: r = f(x) (possibly a view of x), then a documented in-place operation g on x (or on r);
    the other object must keep its value."""
    kinds, f = OPS[s['op']]
    ops, cores = build_operands(E, kinds, s)
    x = ops[0]
    xd = dense(E, cores[0])
    r = f(E, ops, s)
    if not isinstance(r, E.tt.TT):
        rd = r.clone() if E.tn.is_tensor(r) else r
        INPLACE[s['g']](E, x)
        if E.tn.is_tensor(r):
            E.eq('result_kept', r, rd)
        return
    rd = dense(E, list(r.cores))
    rmeta = meta_of(r)
    if s['target'] == 'operand':
        INPLACE[s['g']](E, x)
        E.eq('result_kept', dense(E, r.cores), rd)
        E.true('result_meta_kept', meta_of(r) == rmeta)
    else:
        xmeta = meta_of(x)
        INPLACE[s['g']](E, r)
        E.eq('operand_kept', dense(E, x.cores), xd)
        E.true('operand_meta_kept', meta_of(x) == xmeta)
