"""C11 scenarios (structural clause only): the DMRG / AMEn products return a well-formed TT object of the right
kind and shape, and raise nothing, whatever the numerical data does.

All floating values are HAVOC (tv.scalar.Havoc): LAPACK results are havoc tensors of the right shape, every comparison on
data is a nondeterministic choice, rank truncations return any rank in range.  Shapes, ranks, loop structure and index
arithmetic of the real source stay exact.  The accuracy clause of C11 is outside (see DESIGN.md section 5).
"""
from .lib import scenario
from .c14 import _rank_chop_contract


def _tt(E, N, R, M=None, zero=False):
    tn = E.tn
    d = len(N)
    cores = []
    for k in range(d):
        shp = [R[k], N[k], R[k + 1]] if M is None else [R[k], M[k], N[k], R[k + 1]]
        if E.mode == 'real':
            cores.append(tn.randn(*shp, dtype=tn.float64) * (0.0 if zero and k == d // 2 else 1.0))
        else:
            cores.append(E.havoc_tensor(shp))
    return E.tt.TT(cores)


def _wellformed(E, y, N, M=None):
    tt = E.tt
    ok = isinstance(y, tt.TT)
    E.true('is_tt', ok)
    if not ok:
        return
    E.true('kind', bool(y.is_ttm) == (M is not None))
    E.true('shape', list(y.N) == list(N) and (M is None or list(y.M) == list(M)))
    R = [int(r) for r in y.R]
    d = len(N)
    E.true('ranks', len(R) == d + 1 and R[0] == 1 and R[-1] == 1 and all(r >= 1 for r in R))
    good = len(y.cores) == d
    for k, c in enumerate(y.cores):
        shp = [int(v) for v in c.shape]
        exp = [R[k], N[k], R[k + 1]] if M is None else [R[k], M[k], N[k], R[k + 1]]
        good = good and shp == exp
    E.true('cores_match', good)


@scenario
def product_structure(E, s):
    if E.mode == 'real':
        # replay: random operands for several seeds, and operands that make the product exactly zero
        for variant in range(6):
            _product_structure(E, dict(s, seed=variant, zero=(None, 'first', 'second')[variant % 3]))
            if any(r['status'] != 'ok' for r in E.results):
                return
        return
    _product_structure(E, s)


def _product_structure(E, s):
    tn, tt = E.tn, E.tt
    op = s['op']
    N, M = s['N'], s.get('M')
    d = len(N)
    RA, Rx = s['RA'], s['Rx']
    kw = dict(s.get('kw', {}))
    if E.mode == 'real':
        tn.manual_seed(s.get('seed', 0))
    saved = {}
    if E.mode != 'real':
        import torchtt._dmrg as dm
        import torchtt._amen as am
        for mod in (dm, am):
            if hasattr(mod, 'rank_chop'):
                saved[mod] = mod.rank_chop
                mod.rank_chop = _rank_chop_contract(E)
    try:
        if op == 'fast_matvec':
            A = _tt(E, N, RA, M, zero=s.get('zero') == 'first')
            x = _tt(E, N, Rx, zero=s.get('zero') == 'second')
            if s.get('guess'):
                kw['initial'] = _tt(E, M, s['guess'])
            y = A.fast_matvec(x, **kw)
            _wellformed(E, y, M)
        elif op == 'dmrg_hadamard':
            x = _tt(E, N, RA, zero=s.get('zero') == 'first')
            z = _tt(E, N, Rx, zero=s.get('zero') == 'second')
            if s.get('guess'):
                kw['z0'] = _tt(E, N, s['guess'])
            y = tt.dmrg_hadamard(x, z, **kw)
            _wellformed(E, y, N)
        elif op == 'amen_mv':
            A = _tt(E, N, RA, M, zero=s.get('zero') == 'first')
            x = _tt(E, N, Rx, zero=s.get('zero') == 'second')
            if s.get('guess'):
                kw['x0'] = _tt(E, M, s['guess'])
            y = tt.amen_mv(A, x, **kw)
            _wellformed(E, y, M)
        elif op == 'amen_mm':
            K = s['K']
            A = _tt(E, K, RA, M, zero=s.get('zero') == 'first')
            B = _tt(E, N, Rx, K, zero=s.get('zero') == 'second')
            if s.get('guess'):
                kw['X0'] = _tt(E, N, s['guess'], M)
            y = tt.amen_mm(A, B, **kw)
            _wellformed(E, y, N, M)
        else:
            raise ValueError(op)
    finally:
        for mod, f in saved.items():
            mod.rank_chop = f
