"""C11 scenarios (structural clause only): the DMRG / AMEn products return a well-formed TT object of the right
kind and shape, and raise nothing, whatever the numerical data does.

All floating values are HAVOC (tv.scalar.Havoc): LAPACK results are havoc tensors of the right shape, every comparison on
data is a nondeterministic choice, rank truncations return any rank in range.  Shapes, ranks, loop structure and index
arithmetic of the real source stay exact.  The accuracy clause of C11 is outside (see DESIGN.md section 5).
"""
from .lib import scenario
from .c14 import _rank_chop_contract


def _tt(E, N, R, M=None, zero=False):
    tn = E.tn
    d = len(N)
    cores = []
    for k in range(d):
        shp = [R[k], N[k], R[k + 1]] if M is None else [R[k], M[k], N[k], R[k + 1]]
        if E.mode == 'real':
            cores.append(tn.randn(*shp, dtype=tn.float64) * (0.0 if zero and k == d // 2 else 1.0))
        else:
            cores.append(E.havoc_tensor(shp))
    return E.tt.TT(cores)


def _snap(E, objs):
    out = []
    for o in objs:
        if o is None:
            continue
        vals = [c.clone() for c in o.cores] if E.mode == 'real' else None
        out.append((o, o.cores, list(o.cores), [int(r) for r in o.R], list(o.N), vals, [c._version for c in o.cores]))
    return out


def _operands_intact(E, snaps, y):
    """operands and the initial guess keep their core list, core tensor objects and metadata, and the result has its own list
    (real replay: the core values are compared as well)"""
    ok = True
    own = True
    written = False
    for o, lst, tensors, R, N, vals, vers in snaps:
        ok = ok and o.cores is lst and len(lst) == len(tensors) and all(a is b for a, b in zip(lst, tensors))
        ok = ok and [int(r) for r in o.R] == R and list(o.N) == N
        # in-place writes into an operand's core tensors bump their version counters (data is abstract at this level, the counters are not)
        written = written or any(c._version != v for c, v in zip(tensors, vers))
        if vals is not None and ok:
            ok = ok and all(a.shape == b.shape and bool((a == b).all()) for a, b in zip(lst, vals))
        if hasattr(y, 'cores'):
            own = own and y.cores is not lst
    E.true('operands_intact', ok)
    E.true('operand_cores_not_written', not written)
    E.true('result_own_core_list', own)


def _wellformed(E, y, N, M=None):
    tt = E.tt
    ok = isinstance(y, tt.TT)
    E.true('is_tt', ok)
    if not ok:
        return
    E.true('kind', bool(y.is_ttm) == (M is not None))
    E.true('shape', list(y.N) == list(N) and (M is None or list(y.M) == list(M)))
    R = [int(r) for r in y.R]
    d = len(N)
    E.true('ranks', len(R) == d + 1 and R[0] == 1 and R[-1] == 1 and all(r >= 1 for r in R))
    good = len(y.cores) == d
    for k, c in enumerate(y.cores):
        shp = [int(v) for v in c.shape]
        exp = [R[k], N[k], R[k + 1]] if M is None else [R[k], M[k], N[k], R[k + 1]]
        good = good and shp == exp
    E.true('cores_match', good)


@scenario
def product_structure(E, s):
    if E.mode == 'real':
        # replay: random operands for several seeds, and operands that make the product exactly zero
        for variant in range(6):
            _product_structure(E, dict(s, seed=variant, zero=(None, 'first', 'second')[variant % 3]))
            if any(r['status'] != 'ok' for r in E.results):
                return
        return
    _product_structure(E, s)


def _product_structure(E, s):
    tn, tt = E.tn, E.tt
    op = s['op']
    N, M = s['N'], s.get('M')
    d = len(N)
    RA, Rx = s['RA'], s['Rx']
    kw = dict(s.get('kw', {}))
    if E.mode == 'real':
        tn.manual_seed(s.get('seed', 0))
    saved = {}
    if E.mode != 'real':
        import torchtt._dmrg as dm
        import torchtt._amen as am
        for mod in (dm, am):
            if hasattr(mod, 'rank_chop'):
                saved[mod] = mod.rank_chop
                mod.rank_chop = _rank_chop_contract(E)
    try:
        if op == 'fast_matvec':
            A = _tt(E, N, RA, M, zero=s.get('zero') == 'first')
            x = _tt(E, N, Rx, zero=s.get('zero') == 'second')
            if s.get('guess'):
                kw['initial'] = _tt(E, M, s['guess'])
            sn = _snap(E, [A, x, kw.get('initial')])
            y = A.fast_matvec(x, **kw)
            _wellformed(E, y, M)
            _operands_intact(E, sn, y)
        elif op == 'dmrg_hadamard':
            x = _tt(E, N, RA, zero=s.get('zero') == 'first')
            z = _tt(E, N, Rx, zero=s.get('zero') == 'second')
            if s.get('guess'):
                kw['z0'] = _tt(E, N, s['guess'])
            if s.get('guess_is') == 'operand':
                kw['z0'] = x              # the first operand doubles as the initial guess
            sn = _snap(E, [x, z, kw.get('z0')])
            y = tt.dmrg_hadamard(x, z, **kw)
            _wellformed(E, y, N)
            _operands_intact(E, sn, y)
        elif op == 'amen_mv':
            A = _tt(E, N, RA, M, zero=s.get('zero') == 'first')
            x = _tt(E, N, Rx, zero=s.get('zero') == 'second')
            if s.get('guess'):
                kw['x0'] = _tt(E, M, s['guess'])
            sn = _snap(E, [A, x, kw.get('x0')])
            y = tt.amen_mv(A, x, **kw)
            _wellformed(E, y, M)
            _operands_intact(E, sn, y)
        elif op == 'amen_mm':
            K = s['K']
            A = _tt(E, K, RA, M, zero=s.get('zero') == 'first')
            B = _tt(E, N, Rx, K, zero=s.get('zero') == 'second')
            if s.get('guess'):
                kw['X0'] = _tt(E, N, s['guess'], M)
            sn = _snap(E, [A, B, kw.get('X0')])
            y = tt.amen_mm(A, B, **kw)
            _wellformed(E, y, N, M)
            _operands_intact(E, sn, y)
        else:
            raise ValueError(op)
    finally:
        for mod, f in saved.items():
            mod.rank_chop = f


@scenario
def solve_structure(E, s):
    """C12/C13 structural clause: amen_solve / elementwise division return a well-formed TT tensor of the right shape and raise nothing"""
    if E.mode == 'real':
        for variant in range(4):
            _solve_structure(E, dict(s, seed=variant))
            if any(r['status'] != 'ok' for r in E.results):
                return
        return
    _solve_structure(E, s)


def _spd_like(E, N, RA, seed):
    """real mode: a well conditioned operator (identity + small perturbation) of the requested structure"""
    tn, tt = E.tn, E.tt
    d = len(N)
    cores = []
    for k in range(d):
        c = 0.05 * tn.randn(RA[k], N[k], N[k], RA[k + 1], dtype=tn.float64)
        c[0, :, :, 0] += tn.eye(N[k], dtype=tn.float64)
        cores.append(c)
    return tt.TT(cores)


def _iterative_contracts(E):
    """stand-ins for the local iterative solvers (value-driven Krylov loops): the operator is applied once to the start vector,
    so its shape calculus (incl. preconditioners) is executed, and a havoc vector of the start vector's shape is returned"""
    def gmres_restart(LinOp, b, x0, N, max_iterations, threshold, resets=4):
        y = LinOp.matvec(x0)
        if list(y.shape) != list(b.shape):
            raise RuntimeError('local operator maps %s to %s, right-hand side is %s' % (list(x0.shape), list(y.shape), list(b.shape)))
        return E.havoc_tensor(list(x0.shape), str(x0.dtype).replace('torch.', '')), True, 1

    def bicgstab_reset(Op, rhs, x0, eps=1e-6, nmax=40):
        y = Op.matvec(x0)
        if list(y.shape) != list(rhs.shape):
            raise RuntimeError('local operator maps %s to %s, right-hand side is %s' % (list(x0.shape), list(y.shape), list(rhs.shape)))
        return E.havoc_tensor(list(x0.shape), str(x0.dtype).replace('torch.', '')), 1, 1, E.havoc_tensor([])
    return gmres_restart, bicgstab_reset


def _solve_structure(E, s):
    tn, tt = E.tn, E.tt
    op = s['op']
    N = s['N']
    d = len(N)
    kw = dict(s.get('kw', {}))
    if E.mode == 'real':
        tn.manual_seed(s.get('seed', 0))
    saved = {}
    if E.mode != 'real':
        import torchtt.solvers as so
        import torchtt._division as dv
        g_, b_ = _iterative_contracts(E)
        for mod in (so, dv):
            saved[mod] = (getattr(mod, 'rank_chop', None), mod.gmres_restart, mod.BiCGSTAB_reset, mod.__dict__.get('range'))
            if hasattr(mod, 'rank_chop'):
                mod.rank_chop = _rank_chop_contract(E)
            mod.gmres_restart, mod.BiCGSTAB_reset = g_, b_
            if s.get('unroll'):
                from .c14 import _Bounded
                mod.range = _Bounded(E, s['unroll'])
    try:
        if op == 'amen_solve':
            A = _spd_like(E, N, s['RA'], s.get('seed', 0)) if E.mode == 'real' else _tt(E, N, s['RA'], N)
            b = _tt(E, N, s['Rb'])
            if s.get('guess'):
                kw['x0'] = _tt(E, N, s['guess'])
                if E.mode == 'real' and s.get('seed', 0) % 2 == 1:
                    # replay variant: the guess already solves the system (the path on which the first residual test succeeds)
                    kw['x0'] = tt.solvers.amen_solve(A, b, verbose=False, eps=1e-12)
            if s.get('guess_is') == 'operand':
                kw['x0'] = b              # x0 = b (as in the repository's examples)
            sn = _snap(E, [A, b, kw.get('x0')])
            y = tt.solvers.amen_solve(A, b, verbose=False, **kw)
            _wellformed(E, y, N)
            _operands_intact(E, sn, y)
        elif op in ('divide', 'rdivide', 'elementwise_divide'):
            x = _tt(E, N, s['RA'])
            if E.mode == 'real':
                z = _tt(E, N, s['Rb'])
                yv = z * z + tt.ones(N, dtype=tn.float64)         # entries bounded away from zero
            else:
                yv = _tt(E, N, s['Rb'])
            if op == 'elementwise_divide' and s.get('guess'):
                kw['starting_tensor'] = _tt(E, N, s['guess'])
            if op == 'elementwise_divide' and s.get('guess_is') == 'operand':
                kw['starting_tensor'] = x
            sn = _snap(E, [x, yv, kw.get('starting_tensor')])
            if op == 'divide':
                y = x / yv
            elif op == 'rdivide':
                y = 2.5 / yv
            else:
                y = tt.elementwise_divide(x, yv, **kw)
            _wellformed(E, y, N)
            _operands_intact(E, sn, y)
        else:
            raise ValueError(op)
    finally:
        for mod, f in saved.items():
            if f[0] is not None:
                mod.rank_chop = f[0]
            mod.gmres_restart, mod.BiCGSTAB_reset = f[1], f[2]
            if f[3] is None:
                mod.__dict__.pop('range', None)
            else:
                mod.range = f[3]
