"""Scenario helpers. Runs under both interpreters (python3-vt with symtorch, /venv with real torch):
plain python only, no z3, no numpy imports."""

SCEN = {}


def scenario(f):
    SCEN[f.__name__] = f
    return f


def dense(E, cores):
    """Independent dense reconstruction of a TT tensor / TT matrix from its cores (plain chain of tensordots).
    TT matrices come out as M1 x ... x Md x N1 x ... x Nd."""
    tn = E.tn
    d = len(cores)
    is_ttm = cores[0].dim() == 4
    acc = cores[0].clone()      # never a view of the operand
    for c in cores[1:]:
        acc = tn.tensordot(acc, c, dims=([acc.dim() - 1], [0]))
    shp = list(acc.shape)
    acc = tn.reshape(acc, shp[1:-1])
    if is_ttm:
        perm = [2 * i for i in range(d)] + [2 * i + 1 for i in range(d)]
        acc = tn.permute(acc, perm)
    return acc


def tt_input(E, name, N, R, dtype='float64', M=None, via=None):
    """TT object with free core entries.  via='sliced': the object is obtained by slicing a larger one with strides, so
    its cores are non-contiguous views (every second entry of modes of size 2n+1); via='transposed' (operators): the
    object is the transpose of an operator built with M and N exchanged (cores are permuted views)."""
    cores = []
    for k in range(len(N)):
        n, m = N[k], (M[k] if M is not None else None)
        if via == 'sliced':
            n = 2 * n - 1
            m = (2 * m - 1) if m is not None else None
        if via == 'transposed' and M is not None:
            n, m = m, n
        shp = [R[k], n, R[k + 1]] if M is None else [R[k], m, n, R[k + 1]]
        cores.append(E.tensor('%s%d' % (name, k), shp, dtype))
    x = E.tt.TT(cores)
    if via == 'sliced':
        d = len(N)
        key = tuple([slice(None, None, 2)] * (d if M is None else 2 * d))
        x = x[key]
        return x, list(x.cores)
    if via == 'transposed' and M is not None:
        x = x.t()
        return x, list(x.cores)
    return x, cores


def snapshot(E, cores):
    """value copies of cores (for operand-preservation checks)"""
    return [c.clone() for c in cores]


def prod(xs):
    r = 1
    for x in xs:
        r *= x
    return r


def is_tt(E, obj):
    return isinstance(obj, E.tt.TT)


def check_wellformed(E, label, x):
    """structural invariant of a TT object (C05) at the value level"""
    cores = x.cores
    d = len(cores)
    nd = cores[0].dim()
    ok = nd in (3, 4)
    for c in cores:
        ok = ok and c.dim() == nd
    for k in range(d - 1):
        ok = ok and cores[k].shape[-1] == cores[k + 1].shape[0]
    ok = ok and cores[0].shape[0] == 1 and cores[-1].shape[-1] == 1
    R = [1] + [int(c.shape[-1]) for c in cores]
    ok = ok and list(x.R) == R
    if nd == 4:
        ok = ok and x.is_ttm and list(x.M) == [int(c.shape[1]) for c in cores] and list(x.N) == [int(c.shape[2]) for c in cores]
    elif nd == 3:
        ok = ok and (not x.is_ttm) and list(x.N) == [int(c.shape[1]) for c in cores]
    E.true(label, ok)
    if nd == 4:
        shp = [(int(c.shape[1]), int(c.shape[2])) for c in cores]
    else:
        shp = [int(c.shape[1]) for c in cores]
    E.true(label + '_shape_attr', list(x.shape) == shp)
    f = x.full()
    if nd == 4:
        E.true(label + '_full_shape', list(f.shape) == [int(c.shape[1]) for c in cores] + [int(c.shape[2]) for c in cores])
    else:
        E.true(label + '_full_shape', list(f.shape) == [int(c.shape[1]) for c in cores])


def abs2sum(E, t):
    """sum of |entries|^2 as a python/symbolic real scalar (complex tensors: re^2 + im^2)"""
    tn = E.tn
    if str(t.dtype).replace('torch.', '').startswith('complex'):
        re, im = tn.real(t), tn.imag(t)
        return (tn.sum(re * re) + tn.sum(im * im)).item()
    return tn.sum(t * t).item()
