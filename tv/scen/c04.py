"""C04 scenarios: TT-matrix algebra equals dense linear-operator algebra."""
from .lib import scenario, dense, tt_input, prod


def _letters(n, start=0):
    return [chr(ord('a') + start + i) for i in range(n)]


def dense_matvec(E, Ad, xd, d):
    """(M..., N...) applied to (N...) -> (M...) by plain tensordot over the trailing N modes"""
    return E.tn.tensordot(Ad, xd, dims=(list(range(d, 2 * d)), list(range(d))))


def dense_vecmat(E, xd, Ad, d):
    return E.tn.tensordot(xd, Ad, dims=(list(range(d)), list(range(d))))


def dense_matmat(E, Ad, Bd, d):
    return E.tn.tensordot(Ad, Bd, dims=(list(range(d, 2 * d)), list(range(d))))


@scenario
def ttm_matvec(E, s):
    d = len(s['N'])
    A, Ac = tt_input(E, 'A', s['N'], s['RA'], s['dtype'], s['M'], via=s.get('via'))
    x, xc = tt_input(E, 'x', s['N'], s['Rx'], s['dtype'], via=s.get('via'))
    y = A @ x
    ref = dense_matvec(E, dense(E, Ac), dense(E, xc), d)
    E.true('is_tt', isinstance(y, E.tt.TT) and not y.is_ttm)
    E.eq('value', dense(E, y.cores), ref)
    E.true('shape', list(y.N) == list(s['M']))
    E.true('ranks', list(y.R) == [a * b for a, b in zip(s['RA'], s['Rx'])])
    E.true('dtype', all(E.dtname(c) == s['dtype'] for c in y.cores))


@scenario
def ttm_vecmat(E, s):
    d = len(s['N'])
    A, Ac = tt_input(E, 'A', s['N'], s['RA'], s['dtype'], s['M'], via=s.get('via'))
    x, xc = tt_input(E, 'x', s['M'], s['Rx'], s['dtype'], via=s.get('via'))
    y = x @ A
    ref = dense_vecmat(E, dense(E, xc), dense(E, Ac), d)
    E.true('is_tt', isinstance(y, E.tt.TT) and not y.is_ttm)
    E.eq('value', dense(E, y.cores), ref)
    E.true('shape', list(y.N) == list(s['N']))
    E.true('ranks', list(y.R) == [a * b for a, b in zip(s['RA'], s['Rx'])])
    E.true('dtype', all(E.dtname(c) == s['dtype'] for c in y.cores))


@scenario
def ttm_matmat(E, s):
    d = len(s['N'])
    A, Ac = tt_input(E, 'A', s['K'], s['RA'], s['dtype'], s['M'], via=s.get('via'))
    B, Bc = tt_input(E, 'B', s['N'], s['RB'], s['dtype'], s['K'], via=s.get('via'))
    Y = A @ B
    ref = dense_matmat(E, dense(E, Ac), dense(E, Bc), d)
    E.true('is_ttm', isinstance(Y, E.tt.TT) and Y.is_ttm)
    E.eq('value', dense(E, Y.cores), ref)
    E.true('shape', list(Y.M) == list(s['M']) and list(Y.N) == list(s['N']))
    E.true('ranks', list(Y.R) == [a * b for a, b in zip(s['RA'], s['RB'])])
    E.true('dtype', all(E.dtname(c) == s['dtype'] for c in Y.cores))


@scenario
def ttm_dense_matvec(E, s):
    """A @ dense tensor with 0..3 leading batch dimensions"""
    d = len(s['N'])
    A, Ac = tt_input(E, 'A', s['N'], s['RA'], s['dtype'], s['M'], via=s.get('via'))
    B = list(s['batch'])
    x = E.tensor('x', B + list(s['N']), s.get('dtype_x', s['dtype']))
    nb = len(B)
    if s.get('dtype_x') and s['dtype_x'] != s['dtype']:
        # dense operand of another dtype: the product is either refused or it is the dense product in the promoted dtype
        tn = E.tn
        try:
            y = A @ x
        except Exception as exc:          # noqa
            E.note('raised', type(exc).__name__)
            return
        pdt = tn.promote_types(E.dt(s['dtype']), E.dt(s['dtype_x']))
        ref = tn.tensordot(x.to(dtype=pdt), dense(E, [c.to(dtype=pdt) for c in Ac]), dims=(list(range(nb, nb + d)), list(range(d, 2 * d))))
        E.true('is_dense', tn.is_tensor(y))
        E.eq('value', y, ref)
        E.true('dtype', y.dtype == pdt)
        return
    y = A @ x
    ref = E.tn.tensordot(x, dense(E, Ac), dims=(list(range(nb, nb + d)), list(range(d, 2 * d))))
    E.true('is_dense', E.tn.is_tensor(y))
    E.eq('value', y, ref)
    E.true('dtype', E.dtname(y) == s['dtype'])


@scenario
def ttm_transpose(E, s):
    d = len(s['N'])
    A, Ac = tt_input(E, 'A', s['N'], s['RA'], s['dtype'], s['M'], via=s.get('via'))
    At = A.t()
    Ad = dense(E, Ac)
    ref = E.tn.permute(Ad, list(range(d, 2 * d)) + list(range(d)))
    E.eq('value', dense(E, At.cores), ref)
    E.true('shape', list(At.M) == list(s['N']) and list(At.N) == list(s['M']))
    E.true('ranks', list(At.R) == list(s['RA']))
    E.true('dtype', all(E.dtname(c) == s['dtype'] for c in At.cores))
    E.eq('full', At.full(), ref)


@scenario
def ttm_binop(E, s):
    A, Ac = tt_input(E, 'A', s['N'], s['RA'], s['dtype'], s['M'], via=s.get('via'))
    B, Bc = tt_input(E, 'B', s['N'], s['RB'], s['dtype'], s['M'], via=s.get('via'))
    if s.get('alias'):
        B, Bc = (A, Ac) if s['alias'] == 'same' else (E.tt.TT(A.cores), Ac)        # A (op) A, or a second object over the same core list
    Ad, Bd = dense(E, Ac), dense(E, Bc)
    op = s['op']
    if op == 'add':
        Y, ref = A + B, Ad + Bd
    elif op == 'sub':
        Y, ref = A - B, Ad - Bd
    else:
        Y, ref = A * B, Ad * Bd
    d = len(s['N'])
    E.true('is_ttm', isinstance(Y, E.tt.TT) and Y.is_ttm)
    E.eq('value', dense(E, Y.cores), ref)
    E.true('shape', list(Y.M) == list(s['M']) and list(Y.N) == list(s['N']))
    RB_ = s['RA'] if s.get('alias') else s['RB']
    if op in ('add', 'sub'):
        exp = [1] + [s['RA'][k] + RB_[k] for k in range(1, d)] + [1]
    else:
        exp = [a * b for a, b in zip(s['RA'], RB_)]
    E.true('ranks', list(Y.R) == exp)
    E.true('dtype', all(E.dtname(c) == s['dtype'] for c in Y.cores))
    E.eq('full', Y.full(), ref)
    E.eq('operand_intact', dense(E, A.cores), Ad)


@scenario
def ttm_scalar(E, s):
    A, Ac = tt_input(E, 'A', s['N'], s['RA'], s['dtype'], s['M'], via=s.get('via'))
    Ad = dense(E, Ac)
    op = s['op']
    if op == 'neg':
        Y, ref = -A, -Ad
    else:
        if s['skind'] == 'int':
            a = s['ival']
        elif s['skind'] == 'pyfloat':
            a = float(s['fval'])          # a concrete python float (a double that float32 cannot represent)
        elif s['skind'] == 'tensor_concrete':
            # a one-element torch tensor of another dtype (integer / single precision) with a concrete value: the result must be the quotient /
            # product computed in the operand's precision, as the dense expression does
            a = E.tn.tensor(s['tval'], dtype=E.dt(s['tdtype']))
        elif s['skind'] == 'npscalar':
            import numpy as _rnp
            a = getattr(_rnp, s['nptype'])(complex(*s['cval']) if isinstance(s['cval'], list) else s['cval'])       # a concrete numpy scalar
        else:
            a = E.scalar('a', s['skind'], s['dtype'])
        if s.get('nonzero'):
            E.assume(a != 0)
        if op == 'add':
            Y, ref = A + a, Ad + a
        elif op == 'radd':
            Y, ref = a + A, a + Ad
        elif op == 'sub':
            Y, ref = A - a, Ad - a
        elif op == 'rsub':
            Y, ref = a - A, a - Ad
        elif op == 'mul':
            Y, ref = A * a, Ad * a
        elif op == 'rmul':
            Y, ref = a * A, a * Ad
        elif op == 'div':
            Y, ref = A / a, Ad / a
        else:
            raise ValueError(op)
    E.true('is_ttm', isinstance(Y, E.tt.TT) and Y.is_ttm)
    E.eq('value', dense(E, Y.cores), ref.reshape(list(Ad.shape)))
    E.true('shape', list(Y.M) == list(s['M']) and list(Y.N) == list(s['N']))
    if (s.get('skind') == 'complex' or (s.get('skind') == 'npscalar' and s['nptype'].startswith('complex'))) and not s['dtype'].startswith('complex'):
        # a complex scalar on a real operand: the value clause forces a complex result for a != 0; the property fixes no dtype for a == 0
        E.true('dtype_consistent', len({E.dtname(c) for c in Y.cores}) == 1)
    else:
        E.true('dtype', all(E.dtname(c) == s['dtype'] for c in Y.cores))
    E.eq('operand_intact', dense(E, A.cores), Ad)
