"""C15 scenarios: gradients through TT operations match the dense derivative."""
from .lib import scenario, dense, tt_input


def _weighted(E, name, t):
    """generic scalar from a tensor: sum(W * t) with fixed pseudo-random integer weights (so that no entry is lost)"""
    tn = E.tn
    shp = list(t.shape)
    n = 1
    for k in shp:
        n *= k
    w = tn.tensor([float(((7 * i + 3) % 11) - 5 or 2) for i in range(n)], dtype=t.dtype).reshape(shp) if n else tn.zeros(shp, dtype=t.dtype)
    return tn.sum(t * w)


def _expr(E, s, x, y, A, xd, yd, Ad):
    """returns (f_tt, f_dense) scalars (one-element tensors) for the expression s['expr']"""
    tn, tt = E.tn, E.tt
    e = s['expr']
    d = len(s['N'])
    if e == 'full':
        return _weighted(E, 'w', x.full()), _weighted(E, 'w', xd)
    if e == 'add':
        return _weighted(E, 'w', (x + y).full()), _weighted(E, 'w', xd + yd)
    if e == 'sub_mul':
        return _weighted(E, 'w', ((x - y) * x).full()), _weighted(E, 'w', (xd - yd) * xd)
    if e == 'scalar_ops':
        return _weighted(E, 'w', (2.0 * x - 3 + x / 4.0).full()), _weighted(E, 'w', 2.0 * xd - 3 + xd / 4.0)
    if e == 'neg_kron':
        z = (-x) ** y
        return _weighted(E, 'w', z.full()), _weighted(E, 'w', tn.tensordot(-xd, yd, dims=0))
    if e == 'sum_all':
        return (x * y).sum().reshape([]), tn.sum(xd * yd)
    if e == 'sum_index':
        r = (x * x).sum([0])
        rd = tn.sum(xd * xd, [0])
        r = r.full() if isinstance(r, tt.TT) else r
        return _weighted(E, 'w', r), _weighted(E, 'w', rd)
    if e == 'dot':
        return tt.dot(x, y).reshape([]), tn.sum(xd * yd)
    if e == 'dot_sq':
        v = tt.dot(x, y).reshape([])
        vd = tn.sum(xd * yd)
        return v * v, vd * vd
    if e == 'norm_sq':
        return x.norm(True).reshape([]), tn.sum(xd * xd)
    if e == 'norm':
        q = E.sumsq(xd - yd)           # registered as a sum of squares before the library meets the same polynomial
        E.assume(q > 0)                # the norm is not differentiable at 0
        return (x - y).norm().reshape([]), tn.sqrt(q)
    if e == 'matvec':
        r = A @ x
        rd = tn.tensordot(Ad, xd, dims=(list(range(d, 2 * d)), list(range(d))))
        return _weighted(E, 'w', r.full()), _weighted(E, 'w', rd)
    if e == 'matmat':
        r = A @ A.t()
        At = tn.permute(Ad, list(range(d, 2 * d)) + list(range(d)))
        rd = tn.tensordot(Ad, At, dims=(list(range(d, 2 * d)), list(range(d))))
        return _weighted(E, 'w', r.full()), _weighted(E, 'w', rd)
    if e == 'bilinear':
        Ay = tn.tensordot(Ad, yd, dims=(list(range(d, 2 * d)), list(range(d))))
        return tt.bilinear_form(x, A, y).reshape([]), tn.sum(xd * Ay)
    if e == 'getitem':
        key = tuple([0] + [slice(None)] * (d - 1))
        r = x[key]
        r = r.full() if isinstance(r, tt.TT) else r
        return _weighted(E, 'w', r), _weighted(E, 'w', xd[key])
    if e == 'apply_mask':
        idx = tn.tensor([[0] * d, [n - 1 for n in s['N']]])
        r = x.apply_mask(idx)
        rd = tn.cat([xd[tuple([0] * d)].reshape([1]), xd[tuple(n - 1 for n in s['N'])].reshape([1])])
        return _weighted(E, 'w', r), _weighted(E, 'w', rd)
    if e == 'cat':
        r = tt.cat((x, y), 0)
        return _weighted(E, 'w', r.full()), _weighted(E, 'w', tn.cat((xd, yd), 0))
    if e == 'pad':
        r = tt.pad(x, tuple((1, 0) for _ in range(d)), 0.0)
        rd = tn.nn.functional.pad(xd, tuple([1, 0] * d))
        return _weighted(E, 'w', r.full()), _weighted(E, 'w', rd)
    if e == 'pad_short':
        # fewer padding pairs than modes: they belong to the trailing modes (as in torch.nn.functional.pad)
        r = tt.pad(x, ((1, 0),), 0.0)
        rd = tn.nn.functional.pad(xd, (1, 0))
        return _weighted(E, 'w', r.full()), _weighted(E, 'w', rd)
    if e == 'diag':
        r = tt.diag(tt.diag(x))
        return _weighted(E, 'w', r.full()), _weighted(E, 'w', xd)
    if e == 'mprod':
        F = E.const_tensor([[1.0, 2.0][: s['N'][0]] if s['N'][0] <= 2 else [1.0, 2.0, -1.0][: s['N'][0]], [0.5, -1.0, 3.0][: s['N'][0]]], s.get('dtype', 'float64'))
        r = x.mprod(F, 0)
        rd = tn.tensordot(F, xd, dims=([1], [0]))
        return _weighted(E, 'w', r.full()), _weighted(E, 'w', rd)
    if e == 'mprod_list':
        # list form: one matrix per listed mode, applied in the order given (a mode may be listed more than once)
        n0, nl = s['N'][0], s['N'][-1]
        F = E.const_tensor([[1.0, 2.0, -1.0][:n0], [0.5, -1.0, 3.0][:n0]], s.get('dtype', 'float64'))          # 2 x n0
        G = E.const_tensor([[2.0, 1.0], [-1.0, 1.0], [0.5, 3.0]], s.get('dtype', 'float64'))                    # 3 x 2
        H = E.const_tensor([[1.0, -2.0, 0.5][:nl], [3.0, 1.0, -1.0][:nl]], s.get('dtype', 'float64'))          # 2 x nl
        if d == 1:
            r = x.mprod([F, G], [0, 0])
            rd = tn.tensordot(G, tn.tensordot(F, xd, dims=([1], [0])), dims=([1], [0]))
        else:
            r = x.mprod([F, H, G], [0, d - 1, 0])
            rd = tn.tensordot(G, tn.tensordot(F, xd, dims=([1], [0])), dims=([1], [0]))
            rd = tn.movedim(tn.tensordot(H, rd, dims=([1], [d - 1])), 0, d - 1)
        return _weighted(E, 'w', r.full()), _weighted(E, 'w', rd)
    if e == 'scale_by_dot':
        # a TT scaled by a one-element tensor that itself depends on the tracked cores
        v = tt.dot(x, y)
        vd = tn.sum(xd * yd)
        return _weighted(E, 'w', (x * v).full()), _weighted(E, 'w', xd * vd)
    if e == 'scale_by_sum':
        v = x.sum()
        return _weighted(E, 'w', (v * y + x / 2.0).full()), _weighted(E, 'w', tn.sum(xd) * yd + xd / 2.0)
    if e == 'add_tracked_scalar':
        # TT +/- a one-element tensor that depends on the tracked cores (the solver is free to make it zero)
        v = tt.dot(x, y)
        vd = tn.sum(xd * yd)
        w = x.sum()
        return _weighted(E, 'w', ((x + v) - w).full()), _weighted(E, 'w', (xd + vd) - tn.sum(xd))
    if e == 'copy_forms':
        # argument forms that return copies must stay in the graph: kron with None, ** None, Ellipsis index, unary plus, clone
        a1 = tt.dot(tt.kron(x, None), y).reshape([])
        a2 = tt.dot(tt.kron(None, x), x).reshape([])
        a3 = tt.dot(x ** None, y).reshape([])
        a4 = tt.dot(x[...], y).reshape([])
        a5 = tt.dot(+x, y).reshape([])
        a6 = tt.dot(x.clone(), y).reshape([])
        dxy = tn.sum(xd * yd)
        return a1 + 2.0 * a2 + 3.0 * a3 + 5.0 * a4 + 7.0 * a5 + 11.0 * a6, dxy + 2.0 * tn.sum(xd * xd) + (3.0 + 5.0 + 7.0 + 11.0) * dxy
    if e == 'depth3':
        r = ((x + y) * x - 2.0 * y)
        v = tt.dot(r, x).reshape([])
        rd = (xd + yd) * xd - 2.0 * yd
        return v, tn.sum(rd * xd)
    raise ValueError(e)


@scenario
def ad_grad(E, s):
    tn, tt = E.tn, E.tt
    N, R = s['N'], s['R']
    d = len(N)
    # via: the operands are views of other objects (strided slices; transposes of operators), so their cores are non-contiguous
    x, xc = tt_input(E, 'x', N, R, 'float64', via=s.get('via'))
    y, yc = tt_input(E, 'y', s.get('N2', N), s.get('R2', R), 'float64', via=s.get('via'))
    A = Ac = Ad = None
    if s['expr'] in ('matvec', 'matmat', 'bilinear'):
        A, Ac = tt_input(E, 'A', N, s.get('RA', R), 'float64', N, via=s.get('via_A', s.get('via')))
    tracked = s['tracked']          # e.g. {'x': [0, 1], 'y': None}; None = all cores
    api = s.get('api', 'grad')
    objs = {'x': x, 'y': y, 'A': A}
    if s.get('watch') == 'list' and all(idx is None for idx in tracked.values()):
        tt.grad.watch_list([objs[nm] for nm in tracked])
    else:
        for nm, idx in tracked.items():
            tt.grad.watch(objs[nm], idx) if idx is not None else tt.grad.watch(objs[nm])
    E.true('watched', all(c.requires_grad for nm, idx in tracked.items() for k, c in enumerate(objs[nm].cores) if idx is None or k in [i % len(objs[nm].cores) for i in idx]))
    xd, yd = dense(E, x.cores), dense(E, y.cores)
    if A is not None:
        Ad = dense(E, A.cores)
    f_tt, f_dense = _expr(E, s, x, y, A, xd, yd, Ad)
    E.eq('value', f_tt.reshape([]), f_dense.reshape([]))
    # reference gradients first (real torch: autograd on the dense expression, retaining the graph)
    names = list(tracked)
    refs = {}
    for nm in names:
        o = objs[nm]
        idxs = tracked[nm] if tracked[nm] is not None else list(range(len(o.cores)))
        refs[nm] = [(k, E.grad_of(f_dense, o.cores[k])) for k in idxs]
    if api == 'grad':
        nm = names[0]
        g = tt.grad.grad(f_tt, objs[nm], tracked[nm]) if tracked[nm] is not None else tt.grad.grad(f_tt, objs[nm])
        E.true('count', len(g) == len(refs[nm]))
        for (k, ref), gk in zip(refs[nm], g):
            E.true('grad_shape_%s%d' % (nm, k), gk is not None and list(gk.shape) == list(objs[nm].cores[k].shape))
            if gk is not None:
                E.eq('grad_%s%d' % (nm, k), gk, ref)
    else:
        lst = [objs[nm] for nm in names]
        allin = api == 'grad_list'
        g = tt.grad.grad_list(f_tt, lst, all_in_one=allin)
        if allin:
            flat = [(nm, k, ref) for nm in names for (k, ref) in refs[nm]]
            full = []
            for nm in names:
                full += [(nm, k) for k in range(len(objs[nm].cores))]
            E.true('count', len(g) == len(full))
            gm = {key: gg for key, gg in zip(full, g)}
            for nm, k, ref in flat:
                gk = gm[(nm, k)]
                E.true('grad_shape_%s%d' % (nm, k), gk is not None and list(gk.shape) == list(objs[nm].cores[k].shape))
                if gk is not None:
                    E.eq('grad_%s%d' % (nm, k), gk, ref)
        else:
            E.true('count', len(g) == len(names) and all(len(gi) == len(objs[nm].cores) for gi, nm in zip(g, names)))
            for gi, nm in zip(g, names):
                for k, ref in refs[nm]:
                    gk = gi[k]
                    E.true('grad_shape_%s%d' % (nm, k), gk is not None and list(gk.shape) == list(objs[nm].cores[k].shape))
                    if gk is not None:
                        E.eq('grad_%s%d' % (nm, k), gk, ref)
    if s.get('unwatch'):
        for nm in names:
            tt.grad.unwatch(objs[nm])
        E.true('unwatched', all(not c.requires_grad for nm in names for c in objs[nm].cores))
        E.eq('unwatched_value', dense(E, x.cores), xd)


@scenario
def ad_layer(E, s):
    """C20 gradient clause: gradients of the TT layer's parameters equal those of the dense affine map"""
    tn = E.tn
    d = len(s['size_in'])
    layer = E.tt.nn.LinearLayerTT(list(s['size_in']), list(s['size_out']), list(s['rank']), dtype=E.dt('float64'), initializer=s.get('init', 'He'))
    cores = [c for c in layer.cores]
    with tn.no_grad():
        for k, c in enumerate(cores):
            c.copy_(E.tensor('w%d' % k, list(c.shape), 'float64'))
        layer.bias.copy_(E.tensor('b', s['size_out'], 'float64'))
    for p in layer.parameters():
        p.requires_grad_(True)
    params = list(cores) + [layer.bias]
    frozen = [i % len(params) for i in s.get('frozen', [])]
    for i in frozen:
        # fine-tuning with some parameters frozen: the others still get their gradients
        params[i].requires_grad_(False)
    if s.get('eval'):
        layer.eval()
    x = E.tensor('x', list(s['batch']) + list(s['size_in']), 'float64')
    y = layer(x)
    W = dense(E, cores)
    nb = len(s['batch'])
    ref = tn.tensordot(x, W, dims=(list(range(nb, nb + d)), list(range(d, 2 * d)))) + layer.bias
    f_tt = _weighted(E, 'w', y)
    f_dense = _weighted(E, 'w', ref)
    refs = [E.grad_of(f_dense, p) if k not in frozen else None for k, p in enumerate(params)]
    E.true('output_tracked', bool(y.requires_grad))
    f_tt.backward()
    for k, (p, r) in enumerate(zip(params, refs)):
        if k in frozen:
            continue
        E.true('grad_present_%d' % k, p.grad is not None and list(p.grad.shape) == list(p.shape))
        if p.grad is not None:
            E.eq('grad_%d' % k, p.grad, r)


@scenario
def ad_factory(E, s):
    """gradients with respect to the cores of an object made by a factory (ones, zeros, eye): the derivative
    with respect to core k is the one obtained when every core is an independent variable"""
    tn, tt = E.tn, E.tt
    N = list(s['N'])
    d = len(N)
    kind = s['kind']
    if kind == 'ones':
        x = tt.ones(N, dtype=tn.float64)
    elif kind == 'zeros':
        x = tt.zeros(N, dtype=tn.float64)
    elif kind == 'eye':
        x = tt.eye(N, dtype=tn.float64)
    else:
        raise ValueError(kind)
    shape = list(x.M) + list(x.N) if x.is_ttm else list(x.N)
    w = E.tensor('w', shape, 'float64')
    # reference: independent copies of the cores
    ref_cores = [c.detach().clone() for c in x.cores]
    for c in ref_cores:
        c.requires_grad_(True)
    f_ref = tn.sum(dense(E, ref_cores) * w)
    refs = [E.grad_of(f_ref, c) for c in ref_cores]
    tt.grad.watch(x)
    f_tt = tn.sum(x.full() * w)
    g = tt.grad.grad(f_tt, x)
    E.true('count', len(g) == d)
    for k in range(d):
        E.true('grad_shape_%d' % k, g[k] is not None and list(g[k].shape) == list(x.cores[k].shape))
        if g[k] is not None:
            E.eq('grad_%d' % k, g[k], refs[k])
