"""C03 scenarios: TT-tensor arithmetic equals dense arithmetic."""
from .lib import scenario, dense, tt_input, prod


def _apply(op, a, b):
    if op == 'add':
        return a + b
    if op == 'sub':
        return a - b
    if op == 'mul':
        return a * b
    raise ValueError(op)


def prelude_calls(E, N, dtype):
    """unrelated public calls made before the operation under test (the library keeps no state between calls, so the
    result must not depend on them): scalar / w, w / scalar, scalar - w, w * 0 and a rank-one product on the same mode sizes.
    Symbolic runs replace the AMEn division kernel behind scalar / w by its contract (returns some core list of the operand's
    shape; its numerics are the subject of C13), everything in front of it is the real code."""
    import sys
    tn, tt = E.tn, E.tt
    w = tt.TT([tn.ones([1, n, 1], dtype=E.dt(dtype)) for n in N])
    base = sys.modules[tt.__name__ + '._tt_base']
    saved = base.amen_divide
    if E.mode != 'real':
        base.amen_divide = lambda a, b, *args, **kw: [c.clone() for c in b.cores]
    try:
        q = 2.0 / w
    finally:
        base.amen_divide = saved
    h = w / 4.0
    g = 3.0 - w
    z = w * 0
    k = tt.ones(list(N), dtype=E.dt(dtype)) * 5.0
    return [w, q, h, g, z, k]


@scenario
def tt_binop(E, s):
    """x (op) y for TT tensors, with torch-style trailing-dimension / size-1 broadcasting"""
    x, xc = tt_input(E, 'x', s['N1'], s['R1'], s['dtype'], via=s.get('via'))
    y, yc = tt_input(E, 'y', s['N2'], s['R2'], s.get('dtype2', s['dtype']), via=s.get('via'))
    if s.get('alias'):
        y, yc = (x, xc) if s['alias'] != 'shared_list' else (E.tt.TT(x.cores), xc)          # x (op) x: the operands alias each other (or share their core list)
    ref = _apply(s['op'], dense(E, xc), dense(E, yc))
    if s.get('prelude'):
        keep = prelude_calls(E, s['N1'], s['dtype'])
    z = _apply(s['op'], x, y)
    E.true('is_tt', isinstance(z, E.tt.TT))
    E.eq('value', dense(E, z.cores), ref)
    E.true('shape', list(z.N) == list(ref.shape))
    E.true('boundary_ranks', z.R[0] == 1 and z.R[-1] == 1)
    if s['N1'] == s['N2']:
        d = len(s['N1'])
        if s['op'] in ('add', 'sub'):
            exp = [1] + [s['R1'][k] + s['R2'][k] for k in range(1, d)] + [1]
        else:
            exp = [s['R1'][k] * s['R2'][k] for k in range(d + 1)]
        E.true('ranks', list(z.R) == exp)
    if s.get('dtype2', s['dtype']) == s['dtype']:
        E.true('dtype', all(E.dtname(c) == s['dtype'] for c in z.cores))
    E.eq('full', z.full(), ref)
    E.eq('operand_x_intact', dense(E, x.cores), dense(E, xc))


@scenario
def tt_scalar(E, s):
    """TT (op) scalar from either side, unary ops, division by a scalar"""
    x, xc = tt_input(E, 'x', s['N'], s['R'], s['dtype'], via=s.get('via'))
    op = s['op']
    xd = dense(E, xc)
    if op in ('neg', 'pos'):
        z = -x if op == 'neg' else +x
        ref = -xd if op == 'neg' else xd
    else:
        if s['skind'] == 'int':
            a = s['ival']
        elif s['skind'] == 'pyfloat':
            a = float(s['fval'])          # a concrete python float (a double that float32 cannot represent)
        elif s['skind'] == 'tensor_concrete':
            # a one-element torch tensor of another dtype (integer / single precision) with a concrete value: the result must be the quotient /
            # product computed in the operand's precision, as the dense expression does
            a = E.tn.tensor(s['tval'], dtype=E.dt(s['tdtype']))
        elif s['skind'] == 'npscalar':
            import numpy as _rnp
            a = getattr(_rnp, s['nptype'])(complex(*s['cval']) if isinstance(s['cval'], list) else s['cval'])       # a concrete numpy scalar
        else:
            a = E.scalar('a', s['skind'], s['dtype'])
        if s.get('nonzero'):
            E.assume(a != 0)
        # dense reference uses a plain python/tensor scalar of the same value
        ad = a
        if op == 'add':
            z, ref = x + a, xd + ad
        elif op == 'radd':
            z, ref = a + x, ad + xd
        elif op == 'sub':
            z, ref = x - a, xd - ad
        elif op == 'rsub':
            z, ref = a - x, ad - xd
        elif op == 'mul':
            z, ref = x * a, xd * ad
        elif op == 'rmul':
            z, ref = a * x, ad * xd
        elif op == 'div':
            z, ref = x / a, xd / ad
        else:
            raise ValueError(op)
    E.true('is_tt', isinstance(z, E.tt.TT))
    E.eq('value', dense(E, z.cores), ref.reshape(list(xd.shape)))
    E.true('shape', list(z.N) == list(s['N']))
    E.true('boundary_ranks', z.R[0] == 1 and z.R[-1] == 1)
    if (s['skind'] == 'complex' or (s['skind'] == 'npscalar' and s['nptype'].startswith('complex'))) and not s['dtype'].startswith('complex'):
        # a complex scalar on a real operand: the value clause forces a complex result for a != 0; the property fixes no dtype for a == 0
        E.true('dtype_consistent', len({E.dtname(c) for c in z.cores}) == 1)
    else:
        E.true('dtype', all(E.dtname(c) == s['dtype'] for c in z.cores))
    # operand must be untouched (also claimed under C06)
    E.eq('operand_intact', dense(E, x.cores), xd)


@scenario
def tt_kron(E, s):
    x, xc = tt_input(E, 'x', s['N1'], s['R1'], s['dtype'], via=s.get('via'))
    y, yc = tt_input(E, 'y', s['N2'], s['R2'], s['dtype'], via=s.get('via'))
    how = s.get('how', 'pow')
    if how == 'pow':
        z = x ** y
    elif how == 'kron':
        z = E.tt.kron(x, y)
    elif how == 'none_right':
        z = x ** None
    else:
        z = E.tt.kron(None, y)
    xd = dense(E, xc)
    yd = dense(E, yc)
    if how in ('pow', 'kron'):
        ref = E.tn.tensordot(xd, yd, dims=0)
        expR = list(s['R1']) + list(s['R2'])[1:]
    elif how == 'none_right':
        ref, expR = xd, list(s['R1'])
    else:
        ref, expR = yd, list(s['R2'])
    E.eq('value', dense(E, z.cores), ref)
    E.true('ranks', list(z.R) == expR)
    E.true('dtype', all(E.dtname(c) == s['dtype'] for c in z.cores))


@scenario
def tt_full(E, s):
    """full() against the independent contraction (tensors and operators)"""
    x, xc = tt_input(E, 'x', s['N'], s['R'], s['dtype'], s.get('M'), via=s.get('via'))
    f = x.full()
    E.eq('value', f, dense(E, xc))
    E.true('dtype', E.dtname(f) == s['dtype'])


@scenario
def tt_factories(E, s):
    tn, tt = E.tn, E.tt
    kind = s['kind']
    N = s['N']
    dt = E.dt(s['dtype'])
    if kind == 'ones':
        z = tt.ones(N, dtype=dt)
        ref = tn.ones(N, dtype=dt)
    elif kind == 'zeros':
        z = tt.zeros(N, dtype=dt)
        ref = tn.zeros(N, dtype=dt)
    elif kind == 'ones_ttm':
        z = tt.ones([(m, n) for m, n in zip(s['M'], N)], dtype=dt)
        ref = tn.ones(list(s['M']) + list(N), dtype=dt)
    elif kind == 'zeros_ttm':
        z = tt.zeros([(m, n) for m, n in zip(s['M'], N)], dtype=dt)
        ref = tn.zeros(list(s['M']) + list(N), dtype=dt)
    elif kind == 'eye':
        z = tt.eye(N, dtype=dt)
        n = prod(N)
        ref = tn.reshape(tn.eye(n, dtype=dt), list(N) + list(N))
    elif kind == 'rank1':
        vs = [E.tensor('v%d' % k, [N[k]], s['dtype']) for k in range(len(N))]
        z = tt.rank1TT(vs)
        ref = vs[0]
        for v in vs[1:]:
            ref = tn.tensordot(ref, v, dims=0)
    elif kind == 'rank1_ttm':
        vs = [E.tensor('v%d' % k, [s['M'][k], N[k]], s['dtype']) for k in range(len(N))]
        z = tt.rank1TT(vs)
        ref = vs[0]
        for v in vs[1:]:
            ref = tn.tensordot(ref, v, dims=0)
        d = len(N)
        ref = tn.permute(ref, [2 * i for i in range(d)] + [2 * i + 1 for i in range(d)])
    elif kind == 'meshgrid':
        vs = [E.tensor('v%d' % k, [N[k]], s['dtype']) for k in range(len(N))]
        zs = tt.meshgrid(vs)
        E.true('count', len(zs) == len(N))
        for i, zi in enumerate(zs):
            shape = [1] * len(N)
            shape[i] = N[i]
            ref = tn.reshape(vs[i], shape) * tn.ones(N, dtype=dt)
            E.eq('value%d' % i, dense(E, zi.cores), ref)
            E.true('ranks%d' % i, list(zi.R) == [1] * (len(N) + 1))
        return
    else:
        raise ValueError(kind)
    E.eq('value', dense(E, z.cores), ref)
    E.true('ranks', list(z.R) == [1] * (len(N) + 1))
    E.true('dtype', all(E.dtname(c) == s['dtype'] for c in z.cores))
