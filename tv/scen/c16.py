"""C16 scenarios: Riemannian projection is an orthogonal projector onto the tangent space."""
from .lib import scenario, dense, tt_input
from .c02 import so_tt_input


def _inner(E, a, b):
    return E.tn.sum(a * b)


def _delta_form(E, name, N, R):
    """a TT tensor in the block form in which tangent vectors are stored ([[V,0],[S,U]] cores, U left-orthogonal, V right-orthogonal,
    S arbitrary) for frames U, V that have nothing to do with the base point: still just some tensor of ranks 2R to be projected"""
    tn = E.tn
    d = len(N)

    def frame(k, left):
        r0, n, r1 = R[k], N[k], R[k + 1]
        vals = [[[0.0] * r1 for _ in range(n)] for _ in range(r0)]
        if left:                       # columns of the (r0 n) x r1 unfolding: the last r1 unit vectors
            for j in range(r1):
                row = r0 * n - 1 - j
                vals[row // n][row % n][j] = 1.0
        else:                          # rows of the r0 x (n r1) unfolding: the first r0 unit vectors
            for i in range(r0):
                col = i
                vals[i][col // r1][col % r1] = 1.0
        return E.const_tensor(vals, 'float64')
    cores = []
    for k in range(d):
        S = E.tensor('%s%d' % (name, k), [R[k], N[k], R[k + 1]], 'float64')
        if k == 0:
            c = tn.cat([S, frame(k, True)], 2) if d > 1 else S
        elif k == d - 1:
            c = tn.cat([frame(k, False), S], 0)
        else:
            V, U = frame(k, False), frame(k, True)
            c = tn.cat([tn.cat([V, tn.zeros([R[k], N[k], R[k + 1]], dtype=tn.float64)], 2), tn.cat([S, U], 2)], 0)
        cores.append(c)
    return E.tt.TT(cores), cores


@scenario
def riem_projection(E, s):
    tn, tt = E.tn, E.tt
    N, Rx, M = s['N'], s['Rx'], s.get('M')
    if s.get('patterns'):
        # base point with sparse cores (scaled partial permutations per slice, symbolic positive magnitudes): ranks up to 3 stay tractable
        x, xc = so_tt_input(E, 'x', N, Rx, s['patterns'], M)
    else:
        x, xc = tt_input(E, 'x', N, Rx, 'float64', M, via=s.get('via'))
    if s.get('z_form') == 'delta':
        z, zc = _delta_form(E, 'z', N, Rx)
    else:
        z, zc = tt_input(E, 'z', N, s['Rz'], 'float64', M)
    if s.get('z_rounded'):
        # the projected tensor comes out of round(): its cores are right-orthogonal, the base point's are not
        z = z.round()
        zc = list(z.cores)
    P = tt.manifold.riemannian_projection
    xd, zd = dense(E, xc), dense(E, zc)
    what = s['what']
    if what == 'fixes_base_point':
        px = P(x, x)
        E.eq('P(x)==x', dense(E, px.cores), xd)
        E.true('ranks', all(int(a) <= 2 * int(b) for a, b in zip(px.R, x.R)))
        return
    pz = P(x, z)
    pzd = dense(E, pz.cores)
    E.true('is_tt', isinstance(pz, tt.TT) and pz.is_ttm == (M is not None))
    E.true('shape', list(pz.N) == list(N))
    E.true('ranks_le_twice', all(int(a) <= 2 * int(b) for a, b in zip(pz.R, x.R)))
    if what == 'idempotent':
        ppz = P(x, pz)
        E.eq('P(P(z))==P(z)', dense(E, ppz.cores), pzd)
    elif what == 'linear':
        w, wc = tt_input(E, 'w', N, s['Rw'], 'float64', M)
        a = E.scalar('alpha', 'float')
        b = E.scalar('beta', 'float')
        lhs = P(x, a * z + b * w)
        pw = P(x, w)
        E.eq('linearity', dense(E, lhs.cores), a * pzd + b * dense(E, pw.cores))
    elif what == 'selfadjoint':
        w, wc = tt_input(E, 'w', N, s['Rw'], 'float64', M)
        wd = dense(E, wc)
        pw = P(x, w)
        E.eq('<Pz,w>==<z,Pw>', _inner(E, pzd, wd), _inner(E, zd, dense(E, pw.cores)))
    elif what == 'residual_orthogonal':
        w, wc = tt_input(E, 'w', N, s['Rw'], 'float64', M)
        pw = P(x, w)
        E.eq('<z-Pz,Pw>==0', _inner(E, zd - pzd, dense(E, pw.cores)), tn.zeros([], dtype=tn.float64))
    else:
        raise ValueError(what)
    E.eq('operand_x', dense(E, x.cores), xd)
    E.eq('operand_z', dense(E, z.cores), zd)


@scenario
def riem_gradient(E, s):
    """riemannian_gradient(x, f) == P_x(grad f(x)) for f in {quadratic misfit, linear functional, quartic}"""
    tn, tt = E.tn, E.tt
    N, Rx, M = s['N'], s['Rx'], s.get('M')
    if s.get('patterns'):
        x, xc = so_tt_input(E, 'x', N, Rx, s['patterns'], M)
    else:
        x, xc = tt_input(E, 'x', N, Rx, 'float64', M, via=s.get('via'))
    t, tc = tt_input(E, 't', N, [1] * (len(N) + 1), 'float64', M)
    xd = dense(E, xc)
    fk = s['f']
    if fk == 'quadratic':
        f = lambda X: 0.5 * (X - t).norm(True)
        g = x - t
    elif fk == 'linear':
        f = lambda X: tt.dot(X, t) if M is None else (X * t).sum()
        g = t
    elif fk == 'quartic':
        f = lambda X: ((X * X) * (X * X)).sum()
        g = 4.0 * (x * x * x)
    else:
        raise ValueError(fk)
    if s.get('before') == 'gradient':
        # an earlier gradient of another functional at the same base point object must not leak into this one
        tt.manifold.riemannian_gradient(x, lambda X: X.sum())      # (not a multiple of |X|^2: that gradient is x itself and is removed by the gauge projection)
    elif s.get('before') == 'projection':
        tt.manifold.riemannian_projection(x, t)
    rg = tt.manifold.riemannian_gradient(x, f)
    ref = tt.manifold.riemannian_projection(x, g)
    E.true('is_tt', isinstance(rg, tt.TT) and rg.is_ttm == (M is not None))
    E.true('shape', list(rg.N) == list(N))
    E.eq('value', dense(E, rg.cores), dense(E, ref.cores))
    E.eq('operand_x', dense(E, x.cores), xd)
