"""C14 scenarios (index clause only): dmrg_cross calls the user's function with well-formed index matrices.

The numerical data is abstracted away: every floating value is HAVOC (tv.scalar.Havoc), every comparison on it an
independent nondeterministic choice, LAPACK results (QR, SVD, solve) are havoc tensors of the right shape.  What stays
exact is the integer side: index vectors, unravel_index arithmetic, gathers of index matrices, concatenation, ranks
and shapes.  The solver decides, per path, whether some row of an index matrix handed to the user's function can have
a column outside [0, N[k]).
"""
from .lib import scenario


def _maxvol_contract(E):
    """stand-in for interpolate._maxvol inside dmrg_cross: any index vector the real routine may return
    (its contract is decided separately by the scenario maxvol_contract)"""
    tn = E.tn

    def stub(M):
        m, n = int(M.shape[0]), int(M.shape[1])
        if n >= m:
            return tn.tensor(list(range(m)), dtype=tn.int64)
        return tn.tensor([tn._fresh_index('maxvol', 0, m) for _ in range(n)], dtype=tn.int64)
    return stub


def _rank_chop_contract(E, prefix=None, prefix_max=0):
    """stand-in for rank_chop on havoc singular values: any rank in [1, len(s)] (the kernel itself is decided under C01).
    prefix: outcomes of the first calls fixed by the case (the harness enumerates all prefixes over 1..prefix_max, which only
    splits one exploration into independent cases)"""
    tn = E.tn
    state = {'i': 0}

    def stub(s, eps):
        n = int(s.size)
        i = state['i']
        state['i'] += 1
        if prefix is not None and i < len(prefix):
            if n > prefix_max:
                from ..explorer import unsupported
                unsupported('rank prefix enumeration too small for %d singular values' % n)
            if prefix[i] > n:
                E.assume(False)
            return prefix[i]
        r = tn._fresh_index('rank', 1, n + 1)
        return r.concretize()
    return stub


def _lu_contract(E):
    tn = E.tn

    def stub(M):
        m, n = int(M.shape[0]), int(M.shape[1])
        perm = [tn._fresh_index('piv', 0, m) for _ in range(m)]
        for i in range(m):
            for j in range(i):
                E.assume(perm[i] != perm[j])
        return E.havoc_tensor([m, min(m, n)]), E.havoc_tensor([min(m, n), n]), tn.tensor(perm, dtype=tn.int64)
    return stub


class _Bounded:
    """range() stand-in for one module: loops longer than `bound` iterations are cut after `bound` (assumption: the
    loop has exited by then; see DESIGN.md for the inductive argument that covers the rest)"""

    def __init__(self, E, bound):
        self.E, self.bound = E, bound

    def __call__(self, *a):
        r = range(*a)
        if len(r) < 50:
            return r              # structural loops over shapes are never cut; only the long value-driven retry loops (range(100)) are
        return self._gen(r)

    def _gen(self, r):
        for i, v in enumerate(r):
            if i >= self.bound:
                self.E.assume(False)
            yield v


@scenario
def maxvol_contract(E, s):
    """interpolate._maxvol on an m x n havoc matrix: returns min(m, n) row positions, each in [0, m)"""
    tn = E.tn
    ip = E.tt.interpolate
    m, n = s['m'], s['n']
    if E.mode == 'real':
        # replay: many random matrices (the swap loop only runs when the LU pivots are not yet dominant)
        for seed in range(60):
            tn.manual_seed(seed)
            M = tn.randn(m, n, dtype=tn.float64) * (tn.rand(m, 1, dtype=tn.float64) ** (seed % 4))
            idx = ip._maxvol(M)
            good = tn.is_tensor(idx) and idx.dim() == 1 and idx.dtype == tn.int64 and int(idx.shape[0]) == min(m, n) and bool((idx >= 0).all()) and bool((idx < m).all())
            if not good:
                break
    else:
        saved = (ip._LU, ip.__dict__.get('range'))
        ip._LU = _lu_contract(E)
        ip.range = _Bounded(E, s.get('unroll', 2))
        try:
            idx = ip._maxvol(E.havoc_tensor([m, n]))
        finally:
            ip._LU = saved[0]
            if saved[1] is None:
                del ip.range
            else:
                ip.range = saved[1]
    E.true('is_int_vector', tn.is_tensor(idx) and idx.dim() == 1 and str(idx.dtype) == 'torch.int64')
    E.true('length', int(idx.shape[0]) == min(m, n))
    ok = True
    for j in range(int(idx.shape[0])):
        v = idx[j].item()
        ok = ok & ((v >= 0) & (v < m))
    E.true('in_range', ok)


def _check_call(E, I, N, state):
    tn = E.tn
    d = len(N)
    state['calls'] += 1
    good = tn.is_tensor(I) and I.dim() == 2 and int(I.shape[1]) == d and str(I.dtype) == 'torch.int64'
    if not good:
        state['malformed'] += 1
        return 0
    M = int(I.shape[0])
    for k in range(d):
        ok = True
        for r in range(M):
            v = I[r, k].item()
            ok = ok & ((v >= 0) & (v < N[k]))
        E.true('call%d_col%d_in_range' % (state['calls'], k), ok)
    return M


@scenario
def cross_index(E, s):
    tn = E.tn
    ip = E.tt.interpolate
    N = list(s['N'])
    d = len(N)
    state = {'calls': 0, 'malformed': 0}
    kw = {'nswp': s.get('nswp', 1), 'kick': s.get('kick', 2)}
    if E.mode == 'real':
        # replay: concrete smooth function, several seeds of the internal random start / enrichment
        bad = {'n': 0}

        def f(I):
            state['calls'] += 1
            if not (tn.is_tensor(I) and I.dim() == 2 and I.shape[1] == d and I.dtype == tn.int64):
                state['malformed'] += 1
                return tn.zeros(I.shape[0], dtype=tn.float64)
            for k in range(d):
                if bool((I[:, k] < 0).any()) or bool((I[:, k] >= N[k]).any()):
                    bad['n'] += 1
            J = tn.stack([I[:, k].clamp(0, N[k] - 1) for k in range(d)], 1)
            return 1.0 / (2.0 + tn.sum(J, 1).to(dtype=tn.float64) + 0.3 * J[:, 0].to(dtype=tn.float64) * J[:, -1].to(dtype=tn.float64))
        exc = None
        base = f

        def f2(I):
            # a second target with full TT ranks, so that other rank profiles are reached as well
            v = base(I)
            J = tn.stack([I[:, k].clamp(0, N[k] - 1) for k in range(d)], 1).to(dtype=tn.float64)
            w = tn.ones(I.shape[0], dtype=tn.float64)
            for k in range(d):
                w = w * tn.cos(1.7 * (k + 1) * J[:, k] + 0.3 * J[:, (k + 1) % d] ** 2)
            return v + w
        for seed in range(s.get('replay_seeds', 8)):
            tn.manual_seed(seed)
            f = base if seed % 2 == 0 else f2
            x0 = None
            if s.get('start_ranks'):
                R = s['start_ranks']
                x0 = E.tt.TT([tn.randn(R[k], N[k], R[k + 1], dtype=tn.float64) for k in range(d)])
            try:
                y = ip.dmrg_cross(f, N, eps=s.get('eps', 1e-9) if seed % 4 < 2 else 0.2, x_start=x0, **kw)
            except Exception as e:       # noqa
                exc = e
                break
        if exc is not None:
            raise exc
        E.true('calls_wellformed', state['malformed'] == 0)
        E.true('indices_in_range', bad['n'] == 0)
        E.true('result_shape', list(y.N) == N)
        return

    def f(I):
        M = _check_call(E, I, N, state)
        return E.havoc_tensor([M], 'float64')
    x0 = None
    if s.get('start_ranks'):
        R = s['start_ranks']
        x0 = E.tt.TT([E.havoc_tensor([R[k], N[k], R[k + 1]]) for k in range(d)])
    saved = (ip._maxvol, ip.rank_chop)
    ip._maxvol = _maxvol_contract(E)
    ip.rank_chop = _rank_chop_contract(E, s.get('rank_prefix'), s.get('rank_prefix_max', 0))
    try:
        y = ip.dmrg_cross(f, N, eps=s.get('eps', 1e-9), x_start=x0, **kw)
    finally:
        ip._maxvol, ip.rank_chop = saved
    E.true('calls_wellformed', state['malformed'] == 0)
    E.true('called', state['calls'] > 0)
    E.true('result_shape', isinstance(y, E.tt.TT) and list(y.N) == N)
    E.true('result_ranks', y.R[0] == 1 and y.R[-1] == 1 and all(int(c.shape[0]) == int(y.R[k]) and int(c.shape[2]) == int(y.R[k + 1]) for k, c in enumerate(y.cores)))


@scenario
def interp_structure(E, s):
    """function_interpolate (univariate: x a TT tensor; multivariate: x a list of TT tensors): returns a well-formed TT tensor
    of the shape of x and raises nothing, whatever the data does; the user function receives arguments of the documented form"""
    tn, tt = E.tn, E.tt
    ip = tt.interpolate
    N = list(s['N'])
    d = len(N)
    nargs = s.get('nargs', 0)          # 0: univariate
    kw = {'nswp': s.get('nswp', 1), 'kick': s.get('kick', 2)}
    state = {'calls': 0, 'bad': 0}

    def mk(R):
        if E.mode == 'real':
            return tt.TT([tn.rand(R[k], N[k], R[k + 1], dtype=tn.float64) + 0.5 for k in range(d)])
        return tt.TT([E.havoc_tensor([R[k], N[k], R[k + 1]]) for k in range(d)])

    def f_uni(t):
        state['calls'] += 1
        if not tn.is_tensor(t):
            state['bad'] += 1
        if E.mode == 'real':
            return 1.0 / (1.0 + t * t)
        return E.havoc_tensor([int(v) for v in t.shape])

    def f_multi(Tm):
        state['calls'] += 1
        if not (tn.is_tensor(Tm) and Tm.dim() == 2 and int(Tm.shape[1]) == nargs):
            state['bad'] += 1
            return E.havoc_tensor([int(Tm.shape[0])]) if E.mode != 'real' else tn.zeros(Tm.shape[0], dtype=tn.float64)
        if E.mode == 'real':
            return 1.0 / (2.0 + tn.sum(Tm * Tm, 1))
        return E.havoc_tensor([int(Tm.shape[0])])
    runs = range(4) if E.mode == 'real' else [0]
    for seed in runs:
        if E.mode == 'real':
            tn.manual_seed(seed)
        xs = [mk(s['Rx']) for _ in range(max(nargs, 1))]
        start = mk(s['start_ranks']) if s.get('start_ranks') else None
        saved = None
        if E.mode != 'real':
            saved = (ip._maxvol, ip.rank_chop)
            ip._maxvol = _maxvol_contract(E)
            ip.rank_chop = _rank_chop_contract(E)
        try:
            if nargs:
                y = ip.function_interpolate(f_multi, xs, s.get('eps', 1e-9), start_tens=start, **kw)
            else:
                y = ip.function_interpolate(f_uni, xs[0], s.get('eps', 1e-9), start_tens=start, **kw)
        finally:
            if saved is not None:
                ip._maxvol, ip.rank_chop = saved
        E.true('calls_wellformed', state['bad'] == 0)
        E.true('result_shape', isinstance(y, tt.TT) and list(y.N) == N and not y.is_ttm)
        E.true('result_ranks', y.R[0] == 1 and y.R[-1] == 1 and all(int(c.shape[0]) == int(y.R[k]) and int(c.shape[2]) == int(y.R[k + 1]) for k, c in enumerate(y.cores)))
        if any(r['status'] != 'ok' for r in E.results):
            return
