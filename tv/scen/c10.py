"""C10 scenarios: reshape, permute, QTT conversion."""
from .lib import scenario, dense, prod, tt_input, abs2sum
from .c01 import _or, DELTA
from .c02 import so_tt_input, ROUNDOFF2


def _eps(E, s, default):
    if s.get('eps') == 'default':
        return None, default
    e = E.pos_scalar('eps', hi=s.get('eps_hi', 0.1))
    return e, e


def _accuracy(E, label, yd, ref, e, c):
    tn = E.tn
    diff = yd - ref
    err2 = abs2sum(E, diff)
    nrm2 = abs2sum(E, ref)
    E.true(label, err2 <= ((c * c) * (e * e) * (1 + DELTA) + ROUNDOFF2) * nrm2)


@scenario
def tt_reshape(E, s):
    tn = E.tn
    N, R, M = s['N'], s['R'], s.get('M')
    if s.get('general'):
        x, xc = tt_input(E, 'x', N, R, s.get('dtype', 'float64'), M)      # arbitrary sign-free entries, rank-1 profile
    else:
        x, xc = so_tt_input(E, 'x', N, R, s['patterns'], M, dtype=s.get('dtype', 'float64'), sym_cores=s.get('sym_cores'))
    xd = dense(E, xc)
    eps, e = _eps(E, s, 1e-16)
    if M is None:
        target = list(s['target'])
        t_arg = list(target)
        y = E.tt.reshape(x, t_arg) if eps is None else E.tt.reshape(x, t_arg, eps)
        E.true('shape_argument_intact', t_arg == list(target))
        E.true('is_tt', isinstance(y, E.tt.TT) and not y.is_ttm)
        E.true('shape', list(y.N) == target)
        ref = tn.reshape(xd, target)
    else:
        tM, tN = s['target_M'], s['target_N']
        shape = [(m, n) for m, n in zip(tM, tN)]
        sh0 = list(shape)
        y = E.tt.reshape(x, shape) if eps is None else E.tt.reshape(x, shape, eps)
        E.true('shape_argument_intact', shape == sh0)
        E.true('is_ttm', isinstance(y, E.tt.TT) and y.is_ttm)
        E.true('shape', list(y.M) == list(tM) and list(y.N) == list(tN))
        ref = tn.reshape(xd, list(tM) + list(tN))
    yd = dense(E, y.cores)
    E.true('dense_shape', list(yd.shape) == list(ref.shape))
    _accuracy(E, 'accuracy', yd, ref, e, 2)
    E.eq('operand_value', dense(E, x.cores), xd)
    if s.get('then'):
        _second_call(E, s, x, xd, eps, e)


def _second_call(E, s, x, xd, eps, e):
    """history: the same object is transformed a second time (the first result is kept alive); the second result is
    judged against the object's value exactly like the first"""
    tn = E.tn
    kind, arg = s['then']
    if eps is None:
        e = 1e-12 if kind == 'permute' else 1e-16          # the default accuracy of the second routine
    if kind == 'permute':
        y2 = E.tt.permute(x, list(arg)) if eps is None else E.tt.permute(x, list(arg), eps)
        ref2 = tn.permute(xd, list(arg))
        c = 1
    else:
        y2 = E.tt.reshape(x, list(arg)) if eps is None else E.tt.reshape(x, list(arg), eps)
        ref2 = tn.reshape(xd, list(arg))
        c = 2
    E.true('second_shape', list(y2.N) == list(ref2.shape))
    yd2 = dense(E, y2.cores)
    if list(yd2.shape) == list(ref2.shape):
        _accuracy(E, 'second_accuracy', yd2, ref2, e, c)
    E.eq('operand_value_after_second', dense(E, x.cores), xd)


@scenario
def tt_permute(E, s):
    tn = E.tn
    N, R, M = s['N'], s['R'], s.get('M')
    d = len(N)
    if s.get('general'):
        x, xc = tt_input(E, 'x', N, R, s.get('dtype', 'float64'), M)      # arbitrary sign-free entries, rank-1 profile
    else:
        x, xc = so_tt_input(E, 'x', N, R, s['patterns'], M, dtype=s.get('dtype', 'float64'), sym_cores=s.get('sym_cores'))
    xd = dense(E, xc)
    eps, e = _eps(E, s, 1e-12)
    dims = list(s['dims'])
    d_arg = list(dims)
    y = E.tt.permute(x, d_arg) if eps is None else E.tt.permute(x, d_arg, eps)
    E.true('dims_argument_intact', d_arg == list(dims))
    E.true('is_tt', isinstance(y, E.tt.TT) and y.is_ttm == (M is not None))
    if M is None:
        ref = tn.permute(xd, dims)
        E.true('shape', list(y.N) == [N[i] for i in dims])
    else:
        ref = tn.permute(xd, dims + [d + i for i in dims])
        E.true('shape', list(y.N) == [N[i] for i in dims] and list(y.M) == [M[i] for i in dims])
    yd = dense(E, y.cores)
    E.true('dense_shape', list(yd.shape) == list(ref.shape))
    _accuracy(E, 'accuracy', yd, ref, e, 1)
    E.eq('operand_value', dense(E, x.cores), xd)
    if s.get('then') and M is None:
        _second_call(E, s, x, xd, eps, e)


@scenario
def tt_to_qtt(E, s):
    tn = E.tn
    N, R, M = s['N'], s['R'], s.get('M')
    if s.get('general'):
        x, xc = tt_input(E, 'x', N, R, s.get('dtype', 'float64'), M)      # arbitrary sign-free entries, rank-1 profile
    else:
        x, xc = so_tt_input(E, 'x', N, R, s['patterns'], M, dtype=s.get('dtype', 'float64'), sym_cores=s.get('sym_cores'))
    xd = dense(E, xc)
    eps, e = _eps(E, s, 1e-12)
    ms = s.get('mode_size', 2)
    kw = {} if ms == 2 else {'mode_size': ms}
    y = x.to_qtt(**kw) if eps is None else x.to_qtt(eps, **kw)
    import math
    nq = sum(int(round(math.log(n, ms))) for n in N)
    if M is None:
        E.true('is_tt', isinstance(y, E.tt.TT) and not y.is_ttm)
        E.true('shape', list(y.N) == [ms] * nq)
        ref = tn.reshape(xd, [ms] * nq)
    else:
        E.true('is_ttm', isinstance(y, E.tt.TT) and y.is_ttm)
        E.true('shape', list(y.N) == [ms] * nq and list(y.M) == [ms] * nq)
        ref = tn.reshape(xd, [ms] * (2 * nq))
    yd = dense(E, y.cores)
    E.true('dense_shape', list(yd.shape) == list(ref.shape))
    _accuracy(E, 'accuracy', yd, ref, e, 2)
    E.eq('operand_value', dense(E, x.cores), xd)


@scenario
def tt_qtt_to_tens(E, s):
    """qtt_to_tens is a pure contraction: arbitrary (general, sign-free) cores"""
    tn = E.tn
    x, xc = tt_input(E, 'x', s['N'], s['R'], s.get('dtype', 'float64'))
    xd = dense(E, xc)
    orig = list(s['orig'])
    y = x.qtt_to_tens(orig)
    E.true('is_tt', isinstance(y, E.tt.TT) and not y.is_ttm)
    E.true('shape', list(y.N) == orig)
    E.eq('value', dense(E, y.cores), tn.reshape(xd, orig))
    E.eq('operand_value', dense(E, x.cores), xd)
