"""C19 scenarios: copies and save/load round-trips."""
from .lib import scenario, dense, tt_input
from .c02 import so_tt_input


def _meta(x):
    return (bool(x.is_ttm), [int(n) for n in x.N], [int(m) for m in x.M] if x.is_ttm else None, [int(r) for r in x.R])


def _path(E, tag):
    if E.mode == 'real':
        import tempfile
        import os
        return os.path.join(tempfile.mkdtemp(prefix='tv_c19_'), tag + '.TT')
    p = '/virtual/' + tag + '.TT'
    getattr(E.tn, '_MAPPED', set()).discard(p)          # a fresh file for every run
    getattr(E.tn, '_STORE', {}).pop(p, None)
    return p


def _cleanup(E, path):
    if E.mode == 'real':
        import shutil
        import os
        shutil.rmtree(os.path.dirname(path), ignore_errors=True)


def _roundtrip(E, x, tag, overwrite_with=None):
    path = _path(E, tag)
    try:
        E.tt.save(x, path)
        y = E.tt.load(path)
        if overwrite_with is not None:
            # history: the file is written again (checkpoint loop) while the loaded object is still in use
            E.tt.save(overwrite_with, path)
            z = E.tt.load(path)
            for k, (a, b) in enumerate(zip(overwrite_with.cores, z.cores)):
                E.eq('second_core%d' % k, b, a)
    finally:
        _cleanup(E, path)
    E.true('is_tt', isinstance(y, E.tt.TT))
    E.true('meta', _meta(y) == _meta(x))
    E.true('dtype', [str(c.dtype) for c in y.cores] == [str(c.dtype) for c in x.cores])
    E.true('core_shapes', [list(c.shape) for c in y.cores] == [list(c.shape) for c in x.cores])
    for k, (a, b) in enumerate(zip(x.cores, y.cores)):
        E.eq('core%d' % k, b, a)
    E.true('fresh_object', y is not x and all(a is not b for a, b in zip(x.cores, y.cores)))


@scenario
def save_load_cores(E, s):
    x, xc = tt_input(E, 'x', s['N'], s['R'], s['dtype'], s.get('M'))
    if s.get('sliced'):
        # object produced by slicing: non-contiguous core views / views at a non-zero storage offset
        if s['sliced'] == 'offset':
            key = tuple(slice(1, None) if n >= 2 else slice(None) for n in s['N'])
            if 'M' in s:
                key = tuple(slice(1, None) if m >= 2 else slice(None) for m in s['M']) + key
        elif s['sliced'] == 'strided':
            key = tuple(slice(None, None, 2) for n in s['N'])
            if 'M' in s:
                key = key + key
        elif s['sliced'] == 'empty':
            # empty selections in every mode: a regular object whose cores have no entries
            key = tuple(slice(n, n) for n in s['N'])
            if 'M' in s:
                key = tuple(slice(0, 0) for m in s['M']) + tuple(slice(None) for n in s['N'])
        else:
            key = tuple([slice(0, None, 2)] + [slice(None)] * (len(s['N']) - 1))
            if 'M' in s:
                key = key + key
        x = x[key]
    if s.get('transposed'):
        x = x.t()
    if s.get('conj'):
        x = x.conj()          # complex dtypes: the cores are lazy conjugate views
        if s['conj'] == 'twice':
            x = x.conj()
        elif s['conj'] == 'sliced':
            x = x[tuple(slice(0, None, 2) for n in s['N']) * (2 if 'M' in s else 1)]
    if s.get('prefix') == 'eye':
        # an object whose leading cores hold concrete, exactly representable values (identity / ones factors) in front of generic ones
        x = E.tt.kron(E.tt.eye([2], dtype=E.dt(s['dtype'])) if 'M' in s else E.tt.ones([2], dtype=E.dt(s['dtype'])), x)
    other = None
    if s.get('overwrite'):
        other, _ = tt_input(E, 'z', s['N'], s['R'], s['dtype'], s.get('M'))
    _roundtrip(E, x, 'cores', other)


@scenario
def save_load_ttsvd(E, s):
    """objects produced by TT-SVD: the rank list may hold numpy integers"""
    A = E.pos_tensor('A', s['shape'], [tuple(p) for p in s['pattern']])
    eps = E.pos_scalar('eps', hi=1)
    if s.get('ttm'):
        x = E.tt.TT(A, [(m, n) for m, n in zip(s['M'], s['N'])], eps=eps)
    else:
        x = E.tt.TT(A, eps=eps)
    _roundtrip(E, x, 'svd')


@scenario
def save_load_rounded(E, s):
    x, xc = so_tt_input(E, 'x', s['N'], s['R'], s['patterns'], s.get('M'))
    eps = E.pos_scalar('eps', hi=1)
    y = x.round(eps)
    _roundtrip(E, y, 'rounded')


@scenario
def copies(E, s):
    tn = E.tn
    if s.get('aliased'):
        # an object whose cores are different views of one storage (same start address and shape, other strides)
        n = s['N'][0]
        Mt = E.tensor('m', [n, n], s['dtype'])
        x = E.tt.rank1TT([Mt, Mt.t()] + ([Mt] if s['aliased'] == 3 else []))
        xc = list(x.cores)
    else:
        x, xc = tt_input(E, 'x', s['N'], s['R'], s['dtype'], s.get('M'))
    if s.get('presliced'):
        # the object being copied is itself a view: ranges starting at a non-zero index / strided ranges in every mode
        key = tuple(slice(1, None) if n >= 2 else slice(None) for n in s['N']) if s['presliced'] == 'offset' else tuple(slice(None, None, 2) for n in s['N'])
        if 'M' in s:
            key = tuple(slice(1, None) if m >= 2 else slice(None) for m in s['M']) + key if s['presliced'] == 'offset' else tuple(slice(None, None, 2) for m in s['M']) + key
        x = x[key]
        xc = list(x.cores)
    if s.get('watched') is not None:
        E.tt.grad.watch(x, s['watched']) if s['watched'] else E.tt.grad.watch(x)
    xd = dense(E, [c.detach() for c in xc]) if s.get('watched') is not None else dense(E, xc)
    op = s['op']
    if op == 'clone':
        y = x.clone()
    elif op == 'detach':
        y = x.detach()
    elif op == 'cpu':
        y = x.cpu()
    elif op == 'to_same':
        y = x.to(dtype=E.dt(s['dtype']))
    elif op == 'to_other':
        form = s.get('form', 'dtype_kw')
        dt = E.dt(s['to'])
        if form == 'dtype_kw':
            y = x.to(dtype=dt)
        elif form == 'dev_dtype_kw':
            y = x.to(device='cpu', dtype=dt)
        elif form == 'dev_dtype_pos':
            y = x.to('cpu', dt)
        elif form == 'devobj_dtype':
            y = x.to(tn.device('cpu'), dtype=dt)
        elif form == 'none_dtype':
            y = x.to(None, dt)
        elif form == 'builtin':
            # the python builtins complex / float are accepted as dtypes (complex128 / float64)
            y = x.to(dtype={'complex128': complex, 'float64': float}[s['to']])
        else:
            raise ValueError(form)
    elif op == 'to_noargs':
        y = x.to()
    elif op == 'to_devonly':
        y = x.to(device='cpu') if s.get('form') != 'devobj' else x.to(tn.device('cpu'))
    elif op == 'numpy':
        a = x.numpy()
        E.true('is_ndarray', isinstance(a, E.np.ndarray))
        E.eq('value', tn.tensor(a), xd)
        E.true('numpy_dtype', str(a.dtype) == s['dtype'])
        return
    else:
        raise ValueError(op)
    E.true('is_tt', isinstance(y, E.tt.TT))
    E.true('meta', _meta(y) == _meta(x))
    if op == 'to_other':
        E.true('dtype', all(str(c.dtype) == 'torch.' + s['to'] for c in y.cores))
        E.eq('value', dense(E, y.cores), xd.to(dtype=E.dt(s['to'])))
    else:
        E.true('dtype', all(str(c.dtype) == 'torch.' + s['dtype'] for c in y.cores))
        E.eq('value', dense(E, y.cores), xd)
    E.true('new_object', y is not x and y.cores is not x.cores)
    if s.get('watched') is None:          # (numpy() of an object that is tracked by autograd is refused by torch itself)
        E.eq('numpy_of_copy', tn.tensor(y.numpy()), xd.to(dtype=E.dt(s['to'])) if op == 'to_other' else xd)
    if s.get('then_set_core'):
        # the copy is an object of its own: giving it a core with other mode sizes leaves the original's description alone
        before = _meta(x)
        c0 = y.cores[0]
        shp = [int(v) for v in c0.shape]
        shp[1] += 1
        if y.is_ttm:
            shp[2] += 2
        y.set_core(0, E.tensor('nc', shp, str(c0.dtype).replace('torch.', '')))
        E.true('original_meta_after_copy_changed', _meta(x) == before and list(x.shape) == ([(m, n) for m, n in zip(before[2], before[1])] if before[0] else before[1]))
        E.eq('original_value_after_copy_changed', dense(E, [c.detach() for c in x.cores]), xd)
        return
    if op == 'clone':
        with tn.no_grad():
            for c in y.cores:
                (c.detach() if s.get('watched') is not None else c)[...] = 0
        E.eq('no_shared_storage', dense(E, [c.detach() for c in x.cores]), xd)
