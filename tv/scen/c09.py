"""C09 scenarios: cat, pad, diag, mprod, to_ttm, conj, clone."""
from .lib import scenario, dense, tt_input, prod


@scenario
def tt_cat(E, s):
    ts, ds = [], []
    for i, (N, R) in enumerate(zip(s['Ns'], s['Rs'])):
        x, xc = tt_input(E, 'x%d_' % i, N, R, s['dtype'], via=s.get('via'))
        ts.append(x)
        ds.append(dense(E, xc))
    dim = s['dim']
    if s.get('repeat') is not None:
        # the same object appears more than once among the operands
        order = list(s['repeat'])
        ts = [ts[i] for i in order]
        ds = [ds[i] for i in order]
    if s.get('aslist'):
        z = E.tt.cat(ts, dim)
    else:
        z = E.tt.cat(tuple(ts), dim)
    ref = E.tn.cat(ds, dim)
    E.true('is_tt', isinstance(z, E.tt.TT))
    E.eq('value', dense(E, z.cores), ref)
    E.true('shape', list(z.N) == list(ref.shape))
    E.true('dtype', all(E.dtname(c) == s['dtype'] for c in z.cores))


def _dense_pad(E, xd, padding, value):
    """constant padding of the trailing len(padding) modes"""
    tn = E.tn
    d = xd.dim()
    k = len(padding)
    out_shape = list(xd.shape)
    for j, (b, a) in enumerate(padding):
        out_shape[d - k + j] += b + a
    out = tn.ones(out_shape, dtype=xd.dtype) * value
    idx = [slice(None)] * d
    for j, (b, a) in enumerate(padding):
        ax = d - k + j
        idx[ax] = slice(b, b + xd.shape[ax])
    out[tuple(idx)] = xd
    return out


@scenario
def tt_pad(E, s):
    x, xc = tt_input(E, 'x', s['N'], s['R'], s['dtype'], via=s.get('via'))
    padding = tuple(tuple(p) for p in s['pad'])
    if s['value'] == 'sym':
        v = E.scalar('v', 'float', s['dtype'])
    elif s['value'] == 'tensor0':
        v = E.scalar('v', 'tensor0', s['dtype'])          # a 0-d tensor as fill value: it is an argument, not scratch space
        v_before = v.clone()
    else:
        v = s['value']
    p_arg = [tuple(p) for p in padding] if s.get('pad_as_list') else padding
    if s.get('default_value'):
        z = E.tt.pad(x, p_arg)
        v = 0.0
    else:
        z = E.tt.pad(x, p_arg, v)
    if s.get('pad_as_list'):
        E.true('padding_argument_intact', p_arg == [tuple(p) for p in padding])
    if s['value'] == 'tensor0':
        E.eq('value_argument_intact', v, v_before)
        v = v_before
    ref = _dense_pad(E, dense(E, xc), padding, v)
    E.true('is_tt', isinstance(z, E.tt.TT))
    E.eq('value', dense(E, z.cores), ref)
    E.true('dtype', all(E.dtname(c) == s['dtype'] for c in z.cores))


def _kron_eyes(E, sizes, dtype):
    """dense identity on a product index: shape sizes + sizes"""
    tn = E.tn
    n = prod(sizes)
    return tn.reshape(tn.eye(n, dtype=dtype), list(sizes) + list(sizes))


@scenario
def ttm_pad(E, s):
    """operators: original block kept; the corner block where every mode lies in its leading (trailing) padding is
    value*identity; everything else outside the original block is zero"""
    tn = E.tn
    d = len(s['N'])
    A, Ac = tt_input(E, 'A', s['N'], s['R'], s['dtype'], s['M'], via=s.get('via'))
    padding = tuple(tuple(p) for p in s['pad'])
    if s['value'] == 'sym':
        v = E.scalar('v', 'float', s['dtype'])
    else:
        v = s['value']
    p_arg = [tuple(p) for p in padding] if s.get('pad_as_list') else padding
    Z = E.tt.pad(A, p_arg, v)
    if s.get('pad_as_list'):
        E.true('padding_argument_intact', p_arg == [tuple(p) for p in padding])
    Ad = dense(E, Ac)          # M1..Md N1..Nd
    k = len(padding)
    pads = [(0, 0)] * (d - k) + [tuple(p) for p in padding]
    Mo = [s['M'][i] + pads[i][0] + pads[i][1] for i in range(d)]
    No = [s['N'][i] + pads[i][0] + pads[i][1] for i in range(d)]
    E.true('is_ttm', isinstance(Z, E.tt.TT) and Z.is_ttm)
    E.true('shape', list(Z.M) == Mo and list(Z.N) == No)
    ref = tn.zeros(Mo + No, dtype=Ad.dtype)
    blk = [slice(pads[i][0], pads[i][0] + s['M'][i]) for i in range(d)] + [slice(pads[i][0], pads[i][0] + s['N'][i]) for i in range(d)]
    ref[tuple(blk)] = Ad
    lead = [pads[i][0] for i in range(d)]
    trail = [pads[i][1] for i in range(d)]
    if prod(lead) > 0:
        sl = [slice(0, b) for b in lead] * 2
        ref[tuple(sl)] = _kron_eyes(E, lead, Ad.dtype) * v
    if prod(trail) > 0:
        sl = [slice(pads[i][0] + s['M'][i], Mo[i]) for i in range(d)] + [slice(pads[i][0] + s['N'][i], No[i]) for i in range(d)]
        ref[tuple(sl)] = _kron_eyes(E, trail, Ad.dtype) * v
    E.eq('value', dense(E, Z.cores), ref)
    E.true('dtype', all(E.dtname(c) == s['dtype'] for c in Z.cores))


@scenario
def tt_diag(E, s):
    tn = E.tn
    d = len(s['N'])
    if s['dir'] == 'embed':
        x, xc = tt_input(E, 'x', s['N'], s['R'], s['dtype'], via=s.get('via'))
        A = E.tt.diag(x)
        xd = dense(E, xc)
        n = prod(s['N'])
        ref = tn.reshape(tn.diag(tn.reshape(xd, [n])), list(s['N']) + list(s['N']))
        E.true('is_ttm', isinstance(A, E.tt.TT) and A.is_ttm)
        E.eq('value', dense(E, A.cores), ref)
        E.true('shape', list(A.M) == list(s['N']) and list(A.N) == list(s['N']))
        E.true('dtype', all(E.dtname(c) == s['dtype'] for c in A.cores))
    else:
        M = s.get('M', s['N'])
        A, Ac = tt_input(E, 'A', s['N'], s['R'], s['dtype'], M, via=s.get('via'))
        x = E.tt.diag(A)
        Ad = dense(E, Ac)
        if list(M) == list(s['N']):
            n = prod(s['N'])
            ref = tn.reshape(tn.diag(tn.reshape(Ad, [n, n])), list(s['N']))
        else:
            # rectangular modes: T[i1..id] = A[i1..id, i1..id] with i_k < min(M_k, N_k) (mode-wise torch.diagonal)
            ref = Ad
            for k in range(d):
                ref = tn.diagonal(ref, 0, 0, d - k)
        E.true('is_tt', isinstance(x, E.tt.TT) and not x.is_ttm)
        E.true('shape', list(x.N) == [min(m, n) for m, n in zip(M, s['N'])])
        E.eq('value', dense(E, x.cores), ref)
        E.true('dtype', all(E.dtname(c) == s['dtype'] for c in x.cores))


@scenario
def tt_mprod(E, s):
    tn = E.tn
    x, xc = tt_input(E, 'x', s['N'], s['R'], s['dtype'], via=s.get('via'))
    modes = s['modes']
    cur_ = list(s['N'])
    mats = []
    for i, m in enumerate(modes):
        mats.append(E.tensor('F%d' % i, [s['L'][i], cur_[m % len(cur_)]], s['dtype']))
        cur_[m % len(cur_)] = s['L'][i]          # a repeated mode sees the size left by the previous factor
    if s.get('single'):
        z = x.mprod(mats[0], modes[0])
    else:
        m_arg, f_arg = list(modes), list(mats)
        z = x.mprod(f_arg, m_arg)
        E.true('arguments_intact', m_arg == list(modes) and len(f_arg) == len(mats) and all(a is b for a, b in zip(f_arg, mats)))
    ref = dense(E, xc)
    d = len(s['N'])
    for F, m in zip(mats, modes):
        m = m % d
        ref = tn.tensordot(ref, F, dims=([m], [1]))          # contracted mode goes last
        perm = list(range(m)) + [d - 1] + list(range(m, d - 1))
        ref = tn.permute(ref, perm)
    E.true('is_tt', isinstance(z, E.tt.TT))
    E.eq('value', dense(E, z.cores), ref)
    E.true('dtype', all(E.dtname(c) == s['dtype'] for c in z.cores))
    E.eq('operand_intact', dense(E, x.cores), dense(E, xc))


@scenario
def tt_to_ttm(E, s):
    x, xc = tt_input(E, 'x', s['N'], s['R'], s['dtype'], via=s.get('via'))
    A = x.to_ttm()
    ref = E.tn.reshape(dense(E, xc), list(s['N']) + [1] * len(s['N']))
    E.true('is_ttm', isinstance(A, E.tt.TT) and A.is_ttm)
    E.eq('value', dense(E, A.cores), ref)
    E.true('shape', list(A.M) == list(s['N']) and list(A.N) == [1] * len(s['N']))
    E.true('ranks', list(A.R) == list(s['R']))


@scenario
def tt_conj_clone(E, s):
    x, xc = tt_input(E, 'x', s['N'], s['R'], s['dtype'], s.get('M'), via=s.get('via'))
    xd = dense(E, xc)
    if s['op'] == 'conj':
        z = x.conj()
        ref = E.tn.conj(xd)
    else:
        z = x.clone()
        ref = xd
    E.eq('value', dense(E, z.cores), ref)
    E.true('ranks', list(z.R) == list(s['R']))
    E.true('kind', z.is_ttm == ('M' in s))
    E.true('dtype', all(E.dtname(c) == s['dtype'] for c in z.cores))
    if s['op'] == 'clone':
        # a clone shares no storage: writing into the clone must not change the original
        z.cores[0][...] = 0
        E.eq('no_shared_storage', dense(E, x.cores), xd)
