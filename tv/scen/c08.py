"""C08 scenarios: indexing and apply_mask agree with dense indexing (value level)."""
from .lib import scenario, dense, tt_input, prod


def build_index(E, spec, sizes):
    """spec: list of items 'none' | 'ell' | ['int', v] | ['symint', axis_size] | ['slice', a, b, c]"""
    out = []
    n = 0
    for it in spec:
        if it == 'none':
            out.append(None)
        elif it == 'ell':
            out.append(Ellipsis)
        elif it[0] == 'int':
            out.append(it[1])
        elif it[0] == 'symint':
            sz = it[1]
            out.append(E.int('i%d' % n, -sz, sz - 1))
            n += 1
        elif it[0] == 'slice':
            out.append(slice(it[1], it[2], it[3]))
        else:
            raise ValueError(it)
    return out


def _dense_index(E, xd, idx):
    """dense indexing, applying symbolic integers one axis at a time (from the last to the first so axes stay put)"""
    return xd[tuple(idx)] if len(idx) != 1 else xd[idx[0]]


def _stepwise(E, xd, idx):
    """reference that avoids several symbolic indices in one key: resolve integer items one by one, right to left"""
    tn = E.tn
    # expand ellipsis
    n_cons = sum(1 for k in idx if k is not None and k is not Ellipsis)
    full = []
    for k in idx:
        if k is Ellipsis:
            full += [slice(None)] * (xd.dim() - n_cons)
        else:
            full.append(k)
    n_cons2 = sum(1 for k in full if k is not None)
    full += [slice(None)] * (xd.dim() - n_cons2)
    # first apply slices / None (ints replaced by full slices), remember which result axes hold int-indexed modes
    key1 = []
    int_axes = []
    ax = 0
    for k in full:
        if k is None:
            key1.append(None)
            ax += 1
        elif isinstance(k, slice):
            key1.append(k)
            ax += 1
        else:
            key1.append(slice(None))
            int_axes.append((ax, k))
            ax += 1
    r = xd[tuple(key1)]
    for ax, k in reversed(int_axes):
        key = [slice(None)] * ax + [k]
        r = r[tuple(key)]
    return r


@scenario
def tt_getitem(E, s):
    tn = E.tn
    x, xc = tt_input(E, 'x', s['N'], s['R'], s['dtype'], s.get('M'), via=s.get('via'))
    xd = dense(E, xc)
    idx = build_index(E, s['index'], s['N'])
    key = idx[0] if s.get('bare') else tuple(idx)
    ref = _stepwise(E, xd, idx)
    r = x[key]
    if isinstance(r, E.tt.TT):
        if r.is_ttm:
            rd = dense(E, r.cores)
        else:
            rd = dense(E, r.cores)
        E.eq('value', rd, ref)
    else:
        E.true('is_tensor', tn.is_tensor(r))
        E.eq('value', r, ref)
    if all((not isinstance(it, str)) and it[0] in ('int', 'symint') for it in s['index']):
        E.true('scalar', tn.is_tensor(r) and r.dim() == 0)
    E.eq('operand_intact', dense(E, x.cores), xd)


@scenario
def tt_apply_mask(E, s):
    tn = E.tn
    x, xc = tt_input(E, 'x', s['N'], s['R'], s['dtype'])
    xd = dense(E, xc)
    Mrows = s['rows']
    d = len(s['N'])
    lo = (lambda k: -s['N'][k]) if s.get('negative') else (lambda k: 0)
    cols = [E.itensor('i%d_' % k, [Mrows, 1], lo(k), s['N'][k] - 1) for k in range(d)]
    indices = tn.cat(cols, 1)
    before = indices.clone()
    r = x.apply_mask(indices)
    E.eq('index_argument_intact', indices, before)
    vals = []
    for m in range(Mrows):
        v = xd
        for k in range(d):
            v = v[indices[m, k]]
        vals.append(tn.reshape(v, [1]))
    ref = tn.cat(vals, 0)
    E.true('is_tensor', tn.is_tensor(r))
    E.eq('value', r, ref)


# ---------------------------------------------------------------------------------------------- shape level
def _ref_slice_len(n, start, stop, step):
    """independent reference: number of elements selected by slice(start, stop, step) on an axis of size n (step >= 1);
    comparisons on symbolic values branch in the explorer, so each path sees one closed form"""
    if start is None:
        lo = 0
    elif start < 0:
        lo = start + n
        if lo < 0:
            lo = 0
    else:
        lo = start
        if lo > n:
            lo = n
    if stop is None:
        hi = n
    elif stop < 0:
        hi = stop + n
        if hi < 0:
            hi = 0
    else:
        hi = stop
        if hi > n:
            hi = n
    if hi <= lo:
        return 0
    if step is None or (isinstance(step, int) and step == 1):
        return hi - lo
    return (hi - lo + step - 1) // step


@scenario
def getitem_shape(E, s):
    """x[index] has exactly the shape dense indexing gives, for symbolic mode sizes and symbolic int / slice bounds"""
    from .c18 import s_tt, all_eq, attempt
    B = s.get('B', 4)
    d = s['d']
    kind = 'ttm' if s.get('ttm') else 'tt'
    x, N, M, R = s_tt(E, 'x', d, kind, B)
    axes = (list(M) + list(N)) if kind == 'ttm' else list(N)
    key = []
    ref = []
    valid = True
    ax = 0
    nsym = 0
    spec = s['index']
    n_cons = sum(1 for it in spec if it not in ('none', 'ell'))
    for it in spec:
        if it == 'none':
            key.append(None)
            ref.append(1)
        elif it == 'ell':
            key.append(Ellipsis)
            m = len(axes) - n_cons
            ref.extend(axes[ax:ax + m])
            ax += m
        elif it == 'int':
            i = E.dim('i%d' % nsym, -B - 1, B)
            nsym += 1
            key.append(i)
            valid = valid & (i >= -axes[ax]) & (i < axes[ax])
            ax += 1
        elif it[0] == 'slice':
            parts = []
            for j, p in enumerate(it[1:4]):
                if p == 'sym':
                    lo, hi = (-B - 1, B + 1) if j < 2 else (1, 3)
                    parts.append(E.dim('s%d' % nsym, lo, hi))
                    nsym += 1
                else:
                    parts.append(p)
            key.append(slice(parts[0], parts[1], parts[2]))
            ref.append(_ref_slice_len(axes[ax], parts[0], parts[1], parts[2]))
            ax += 1
        else:
            raise ValueError(it)
    ref.extend(axes[ax:])
    k = tuple(key) if not s.get('bare') else key[0]
    ok, r, exc = attempt(E, lambda: x[k])
    if ok:
        E.true('returned_only_for_valid_index', valid)
        all_int = all(it in ('int', 'ell') for it in spec) and n_cons == len(axes)
        if isinstance(r, E.tt.TT):
            got = (list(r.M) + list(r.N)) if r.is_ttm else list(r.N)
            # a TT matrix result keeps its modes as (row..., col...) pairs: reference rows then columns
            if kind == 'ttm':
                half = len(spec) // 2
                rows, cols = [], []
                # rebuild the reference separately for the row block and the column block
                rr = _ttm_ref(E, spec, key, M, N)
                E.true('shape', all_eq(got, rr))
            else:
                E.true('shape', all_eq(got, ref))
            E.true('not_scalar', not all_int)
        else:
            E.true('is_tensor', E.tn.is_tensor(r))
            E.true('scalar_iff_all_int', all_int and r.dim() == 0)
    elif s.get('too_few'):
        # fewer indices than modes: the library documents an error; returning is only acceptable with the dense shape (checked above)
        E.true('too_few_indices_error_class', exc in ('InvalidArguments', 'ShapeMismatch', 'NotImplementedError', 'IndexError', 'RankMismatch'))
    else:
        E.true('raises_only_for_invalid_index', valid == False if isinstance(valid, bool) else ~valid)


def _ttm_ref(E, spec, key, M, N):
    half = len(spec) // 2
    rows, cols = [], []
    km = kn = 0
    for j in range(half):
        a, b = spec[j], spec[j + half]
        if a == 'none':
            rows.append(1)
            cols.append(1)
            continue
        if a == 'int':
            km += 1
            kn += 1
            continue
        sa, sb = key[j], key[j + half]
        rows.append(_ref_slice_len(M[km], sa.start, sa.stop, sa.step))
        cols.append(_ref_slice_len(N[kn], sb.start, sb.stop, sb.step))
        km += 1
        kn += 1
    return rows + cols
