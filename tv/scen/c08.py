"""C08 scenarios: indexing and apply_mask agree with dense indexing (value level)."""
from .lib import scenario, dense, tt_input, prod


def build_index(E, spec, sizes):
    """spec: list of items 'none' | 'ell' | ['int', v] | ['symint', axis_size] | ['slice', a, b, c]"""
    out = []
    n = 0
    for it in spec:
        if it == 'none':
            out.append(None)
        elif it == 'ell':
            out.append(Ellipsis)
        elif it[0] == 'int':
            out.append(it[1])
        elif it[0] == 'symint':
            sz = it[1]
            out.append(E.int('i%d' % n, -sz, sz - 1))
            n += 1
        elif it[0] == 'slice':
            out.append(slice(it[1], it[2], it[3]))
        else:
            raise ValueError(it)
    return out


def _dense_index(E, xd, idx):
    """dense indexing, applying symbolic integers one axis at a time (from the last to the first so axes stay put)"""
    return xd[tuple(idx)] if len(idx) != 1 else xd[idx[0]]


def _stepwise(E, xd, idx):
    """reference that avoids several symbolic indices in one key: resolve integer items one by one, right to left"""
    tn = E.tn
    # expand ellipsis
    n_cons = sum(1 for k in idx if k is not None and k is not Ellipsis)
    full = []
    for k in idx:
        if k is Ellipsis:
            full += [slice(None)] * (xd.dim() - n_cons)
        else:
            full.append(k)
    n_cons2 = sum(1 for k in full if k is not None)
    full += [slice(None)] * (xd.dim() - n_cons2)
    # first apply slices / None (ints replaced by full slices), remember which result axes hold int-indexed modes
    key1 = []
    int_axes = []
    ax = 0
    for k in full:
        if k is None:
            key1.append(None)
            ax += 1
        elif isinstance(k, slice):
            key1.append(k)
            ax += 1
        else:
            key1.append(slice(None))
            int_axes.append((ax, k))
            ax += 1
    r = xd[tuple(key1)]
    for ax, k in reversed(int_axes):
        key = [slice(None)] * ax + [k]
        r = r[tuple(key)]
    return r


@scenario
def tt_getitem(E, s):
    tn = E.tn
    x, xc = tt_input(E, 'x', s['N'], s['R'], s['dtype'], s.get('M'))
    xd = dense(E, xc)
    idx = build_index(E, s['index'], s['N'])
    key = idx[0] if s.get('bare') else tuple(idx)
    ref = _stepwise(E, xd, idx)
    r = x[key]
    if isinstance(r, E.tt.TT):
        if r.is_ttm:
            rd = dense(E, r.cores)
        else:
            rd = dense(E, r.cores)
        E.eq('value', rd, ref)
    else:
        E.true('is_tensor', tn.is_tensor(r))
        E.eq('value', r, ref)
    if all((not isinstance(it, str)) and it[0] in ('int', 'symint') for it in s['index']):
        E.true('scalar', tn.is_tensor(r) and r.dim() == 0)
    E.eq('operand_intact', dense(E, x.cores), xd)


@scenario
def tt_apply_mask(E, s):
    tn = E.tn
    x, xc = tt_input(E, 'x', s['N'], s['R'], s['dtype'])
    xd = dense(E, xc)
    Mrows = s['rows']
    d = len(s['N'])
    cols = [E.itensor('i%d_' % k, [Mrows, 1], 0, s['N'][k] - 1) for k in range(d)]
    indices = tn.cat(cols, 1)
    r = x.apply_mask(indices)
    vals = []
    for m in range(Mrows):
        v = xd
        for k in range(d):
            v = v[indices[m, k]]
        vals.append(tn.reshape(v, [1]))
    ref = tn.cat(vals, 0)
    E.true('is_tensor', tn.is_tensor(r))
    E.eq('value', r, ref)
