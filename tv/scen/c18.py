"""C18 scenarios (shape level): incompatible operands raise instead of returning a TT object / number.

Each scenario builds operands whose mode sizes and ranks are symbolic integers in [1, B], calls one public entry
point and records whether it *returned*.  An independent compatibility predicate (written from the documentation:
a dense counterpart exists under torch broadcasting, shapes agree where the docs demand it, ...) is evaluated on the
same symbols; the obligation is   returned  ==>  compatible   (z3: path-condition AND NOT compatible unsat).
"""
from .lib import scenario

LIB_ERRORS = ('ShapeMismatch', 'RankMismatch', 'IncompatibleTypes', 'InvalidArguments', 'NotImplementedError')


def s_tt(E, name, d, kind, B, dtype='float64', same=None):
    """well-formed TT operand with symbolic sizes; same: dict of dims to reuse ({'N': [...], 'M': [...]})"""
    N = [E.dim('%sN%d' % (name, k), 1, B) for k in range(d)] if not (same and 'N' in same) else list(same['N'])
    M = None
    if kind == 'ttm':
        M = [E.dim('%sM%d' % (name, k), 1, B) for k in range(d)] if not (same and 'M' in same) else list(same['M'])
    R = [1] + [E.dim('%sR%d' % (name, k), 1, B) for k in range(1, d)] + [1]
    cores = []
    for k in range(d):
        shp = [R[k], N[k], R[k + 1]] if M is None else [R[k], M[k], N[k], R[k + 1]]
        cores.append(E.stensor('%sc%d' % (name, k), shp, dtype))
    return E.tt.TT(cores), N, M, R


def all_eq(a, b):
    if len(a) != len(b):
        return False
    r = True
    for x, y in zip(a, b):
        r = r & (x == y)
    return r


def bcast_ok(a, b):
    """dense broadcasting of shape b against shape a (right aligned)"""
    r = True
    for i in range(1, min(len(a), len(b)) + 1):
        x, y = a[-i], b[-i]
        r = r & ((x == y) | (x == 1) | (y == 1))
    return r


def bcast_shape_is(z, a, b):
    """z equals the broadcast of a and b"""
    n = max(len(a), len(b))
    if len(z) != n:
        return False
    r = True
    for i in range(1, n + 1):
        x = a[-i] if i <= len(a) else 1
        y = b[-i] if i <= len(b) else 1
        # broadcast dim = x if y == 1 else y  (given compatibility)
        r = r & (((y == 1) & (z[-i] == x)) | ((y != 1) & (z[-i] == y)))
    return r


def attempt(E, f):
    """(returned?, result, exception class name)"""
    try:
        return True, f(), None
    except Exception as e:
        if E.internal(e):
            raise
        return False, None, type(e).__name__


def is_result(E, r):
    """a TT object or a number/tensor was returned"""
    return r is not None or True


@scenario
def c18_binop(E, s):
    B = s.get('B', 3)
    x, Nx, Mx, _ = s_tt(E, 'x', s['d1'], s['k1'], B)
    y, Ny, My, _ = s_tt(E, 'y', s['d2'], s['k2'], B)
    op = s['op']
    f = {'add': lambda: x + y, 'sub': lambda: x - y, 'mul': lambda: x * y}[op]
    ok, z, exc = attempt(E, f)
    if s['k1'] != s['k2']:
        compat = False
    elif s['k1'] == 'ttm':
        compat = all_eq(Mx, My) & all_eq(Nx, Ny) if s['d1'] == s['d2'] else False
    else:
        compat = bcast_ok(Nx, Ny)
    if ok:
        E.true('returned_only_if_compatible', compat)
        if isinstance(z, E.tt.TT) and s['k1'] == 'tt' and s['k2'] == 'tt':
            E.true('result_shape_is_dense_broadcast', bcast_shape_is(list(z.N), Nx, Ny))
    elif s.get('class_check', True):
        E.true('documented_exception_class', exc in LIB_ERRORS)


@scenario
def c18_matmul(E, s):
    B = s.get('B', 3)
    x, Nx, Mx, _ = s_tt(E, 'x', s['d1'], s['k1'], B)
    if s['k2'] == 'dense':
        nb = s.get('batch', 0)
        shp = [E.dim('b%d' % i, 1, B) for i in range(nb)] + [E.dim('yN%d' % k, 1, B) for k in range(s['d2'])]
        y = E.stensor('y', shp)
        Ny, My = shp, None
    elif s.get('alias'):
        y, Ny, My = x, Nx, Mx                 # the same object on both sides
    else:
        y, Ny, My, _ = s_tt(E, 'y', s['d2'], s['k2'], B)
    ok, z, exc = attempt(E, lambda: x @ y)
    k1, k2 = s['k1'], s['k2']
    if k1 == 'tt' and k2 == 'tt':
        compat = False
    elif k2 == 'dense':
        compat = all_eq(Nx, Ny[len(Ny) - len(Nx):]) if (k1 == 'ttm' and len(Ny) >= len(Nx)) else False
    elif s['d1'] != s['d2']:
        compat = False
    elif k1 == 'ttm' and k2 == 'tt':
        compat = all_eq(Nx, Ny)
    elif k1 == 'ttm' and k2 == 'ttm':
        compat = all_eq(Nx, My)
    else:
        compat = all_eq(Nx, My)
    if ok:
        E.true('returned_only_if_compatible', compat)
    elif s.get('class_check', True):
        E.true('documented_exception_class', exc in LIB_ERRORS)


@scenario
def c18_dot(E, s):
    B = s.get('B', 3)
    a, Na, Ma, _ = s_tt(E, 'a', s['d1'], s['k1'], B)
    if s.get('alias'):
        b, Nb, Mb = a, Na, Ma                 # the same object in both positions
    else:
        b, Nb, Mb, _ = s_tt(E, 'b', s['d2'], s['k2'], B)
    axis = s.get('axis')
    ok, z, exc = attempt(E, (lambda: E.tt.dot(a, b)) if axis is None else (lambda: E.tt.dot(a, b, list(axis))))
    if s['k1'] != 'tt' or s['k2'] != 'tt':
        compat = False
    elif axis is None:
        compat = all_eq(Na, Nb)
    else:
        valid = len(axis) == len(Nb) and all(0 <= i < len(Na) for i in axis) and len(set(axis)) == len(axis) and list(axis) == sorted(axis)
        compat = all_eq([Na[i] for i in axis], Nb) if valid else False
    if ok:
        E.true('returned_only_if_compatible', compat)
    elif s.get('class_check', True):
        E.true('documented_exception_class', exc in LIB_ERRORS)


@scenario
def c18_bilinear(E, s):
    B = s.get('B', 3)
    d = s['d']
    x, Nx, _, _ = s_tt(E, 'x', s.get('dx', d), s.get('kx', 'tt'), B)
    A, NA, MA, _ = s_tt(E, 'A', d, s.get('kA', 'ttm'), B)
    y, Ny, _, _ = s_tt(E, 'y', s.get('dy', d), s.get('ky', 'tt'), B)
    if s.get('alias') == 'xy':
        y, Ny = x, Nx                          # the same object as both vectors
    elif s.get('alias') == 'all':
        x, Nx, y, Ny = A, NA, A, NA            # one operator object in all three positions
    ok, z, exc = attempt(E, lambda: E.tt.bilinear_form(x, A, y))
    if s.get('kx', 'tt') != 'tt' or s.get('ky', 'tt') != 'tt' or s.get('kA', 'ttm') != 'ttm' or s.get('alias') == 'all':
        compat = False
    else:
        compat = all_eq(Nx, MA) & all_eq(Ny, NA)
    if ok:
        E.true('returned_only_if_compatible', compat)
    elif s.get('class_check', True):
        E.true('documented_exception_class', exc in LIB_ERRORS)


@scenario
def c18_cat(E, s):
    B = s.get('B', 3)
    d = s['d']
    ts, Ns = [], []
    for i in range(s.get('n', 2)):
        t, N, _, _ = s_tt(E, 't%d' % i, s.get('ds', [d] * 3)[i], s.get('kinds', ['tt'] * 3)[i], B)
        ts.append(t)
        Ns.append(N)
    dim = s['dim']
    ok, z, exc = attempt(E, lambda: E.tt.cat(tuple(ts), dim))
    compat = True
    if any(k != 'tt' for k in s.get('kinds', ['tt'] * 3)[:len(ts)]) or any(len(N) != len(Ns[0]) for N in Ns) or not (-len(Ns[0]) <= dim < len(Ns[0])):
        compat = False
    else:
        for N in Ns[1:]:
            for k in range(len(N)):
                if k != dim % len(N):
                    compat = compat & (N[k] == Ns[0][k])
    if ok:
        E.true('returned_only_if_compatible', compat)
    elif s.get('class_check', True):
        E.true('documented_exception_class', exc in LIB_ERRORS)


@scenario
def c18_unary_args(E, s):
    """entry points with an argument that must fit the operand: sum index, permute dims, reshape target, pad count, mprod, set_core, getitem arity"""
    B = s.get('B', 3)
    d = s['d']
    kind = s.get('kind', 'tt')
    x, N, M, R = s_tt(E, 'x', d, kind, B)
    what = s['what']
    tt = E.tt
    if what == 'sum_index':
        idx = s['index']
        ok, z, exc = attempt(E, lambda: x.sum(idx))
        lst = idx if isinstance(idx, list) else [idx]
        compat = isinstance(idx, (int, list)) and all(isinstance(i, int) and -d <= i < d for i in lst)
    elif what == 'permute':
        dims = s['dims']
        ok, z, exc = attempt(E, lambda: tt.permute(x, dims))
        compat = sorted(dims) == list(range(d))
    elif what == 'reshape':
        tgt = [E.dim('t%d' % i, 1, B * B) for i in range(s['dt'])]
        ok, z, exc = attempt(E, lambda: tt.reshape(x, tgt))
        pn, pt = 1, 1
        for n in N:
            pn = pn * n
        for t_ in tgt:
            pt = pt * t_
        compat = (pn == pt)
        if ok:
            E.true('result_has_requested_shape', all_eq(list(z.N), tgt))
    elif what == 'pad_count':
        k = s['k']
        ok, z, exc = attempt(E, lambda: tt.pad(x, tuple((1, 1) for _ in range(k))))
        compat = k <= d
    elif what == 'mprod':
        mode = s['mode']
        F = E.stensor('F', [E.dim('L', 1, B), E.dim('K', 1, B)])
        ok, z, exc = attempt(E, lambda: x.mprod(F, mode))
        compat = (kind == 'tt') and (-d <= mode < d) and (F.shape[1] == N[mode])
        if not (kind == 'tt' and -d <= mode < d):
            compat = False
    elif what == 'mprod_list':
        modes = list(s['modes'])
        Fs = [E.stensor('F%d' % i, [E.dim('L%d' % i, 1, B), E.dim('K%d' % i, 1, B)]) for i in range(len(modes))]
        ok, z, exc = attempt(E, lambda: x.mprod(Fs, modes))
        if kind != 'tt' or not all(-d <= m < d for m in modes):
            compat = False
        else:
            cur_ = list(N)
            compat = True
            for F, m in zip(Fs, modes):
                compat = compat & (F.shape[1] == cur_[m % d])
                cur_[m % d] = F.shape[0]
            if ok:
                E.true('result_shape', all_eq(list(z.N), cur_))
    elif what == 'set_core':
        k = s['k']
        shp = [E.dim('c%d' % i, 1, B) for i in range(4 if kind == 'ttm' else 3)]
        if s.get('wrong_ndim'):
            shp = shp[:-1]
        c = E.stensor('c', shp)
        ok, z, exc = attempt(E, lambda: x.set_core(k, c))
        if 0 <= k < d and not s.get('wrong_ndim'):
            compat = (shp[0] == R[k]) & (shp[-1] == R[k + 1])
        else:
            compat = False
    elif what == 'getitem_arity':
        key = tuple([slice(None)] * s['k'])
        ok, z, exc = attempt(E, lambda: x[key])
        compat = s['k'] == (d if kind == 'tt' else 2 * d)
    elif what == 'getitem_arity_none':
        k = s['k']
        base = [slice(None)] * k
        if kind == 'ttm':
            half = k // 2
            key = tuple([None] + [slice(None)] * half + [None] + [slice(None)] * (k - half))
        else:
            key = tuple([None] + base) if s.get('front', True) else tuple(base + [None])
        ok, z, exc = attempt(E, lambda: x[key])
        compat = k == (d if kind == 'tt' else 2 * d)
    elif what == 'getitem_int':
        i = E.dim('i', -2 * B, 2 * B)
        key = tuple([i] + [slice(None)] * (d - 1)) if kind == 'tt' else tuple(([i] + [slice(None)] * (d - 1)) * 2)
        ok, z, exc = attempt(E, lambda: x[key])
        compat = (i >= -N[0]) & (i < N[0])
        if kind == 'ttm':
            compat = compat & (i >= -M[0]) & (i < M[0])
    elif what == 'to_qtt':
        ms = s.get('mode_size', 2)
        ok, z, exc = attempt(E, (lambda: x.to_qtt()) if ms == 2 else (lambda: x.to_qtt(mode_size=ms)))
        compat = True
        for n in N:
            pw = (n == 1)
            for e in range(1, 5):
                pw = pw | (n == ms ** e)
            compat = compat & pw
    elif what == 'qtt_to_tens':
        orig = [E.dim('o%d' % i, 1, B * B) for i in range(s['do'])]
        ok, z, exc = attempt(E, lambda: x.qtt_to_tens(orig))
        # valid iff the original shape is obtained by merging consecutive modes
        compat = merge_ok(N, orig)
    elif what == 't':
        ok, z, exc = attempt(E, lambda: x.t())
        compat = kind == 'ttm'
    elif what == 'to_ttm':
        ok, z, exc = attempt(E, lambda: x.to_ttm())
        compat = kind == 'tt'
    elif what == 'diag':
        ok, z, exc = attempt(E, lambda: tt.diag(x))
        compat = True      # torch.diagonal is defined for rectangular modes as well
    elif what == 'reshape_negative':
        # negative entries are not mode sizes (there is no -1 inference in torchtt.reshape), whatever their product
        pn = 1
        for n in N:
            pn = pn * n
        if kind == 'tt':
            tgt = {'two': [pn, -1, -1], 'neg_all': [-n for n in N], 'one': [pn, -1]}[s['form']]
        else:
            pm = 1
            for m in M:
                pm = pm * m
            tgt = {'pairs_neg': [(-m, -n) for m, n in zip(M, N)], 'two': [(pm, pn), (-1, -1), (-1, -1)], 'rows_neg': [(-m, n) for m, n in zip(M, N)],
                   'one': [(pm, pn), (-1, -1)], 'mixed': [(-m, -n) if i < 2 else (m, n) for i, (m, n) in enumerate(zip(M, N))]}[s['form']]
        ok, z, exc = attempt(E, lambda: tt.reshape(x, tgt))
        compat = False
    elif what == 'apply_mask_cols':
        k = s['k']
        idx = E.tn.zeros([2, d + k], dtype=E.tn.int64)
        ok, z, exc = attempt(E, lambda: x.apply_mask(idx))
        compat = (k == 0) and kind == 'tt'
    else:
        raise ValueError(what)
    if ok:
        E.true('returned_only_if_compatible', compat)
    elif s.get('class_check', True):
        E.true('documented_exception_class', exc in LIB_ERRORS)


def merge_ok(N, orig):
    """orig is obtained from N by merging consecutive groups of modes (symbolic)"""
    def rec(i, j):
        # can N[i:] be grouped into orig[j:]
        if j == len(orig):
            return i == len(N)
        r = False
        p = 1
        for k in range(i, len(N)):
            p = p * N[k]
            sub = rec(k + 1, j + 1)
            if sub is False:
                continue
            r = r | ((p == orig[j]) & sub)
        return r
    return rec(0, 0)


@scenario
def c18_types(E, s):
    """non-TT / wrong-kind arguments: must raise"""
    B = s.get('B', 3)
    x, N, M, R = s_tt(E, 'x', s.get('d', 2), s.get('kind', 'tt'), B)
    tt = E.tt
    arg = {'str': 'a', 'none': None, 'list': [1, 2], 'dense': E.stensor('w', [E.dim('w0', 2, B), E.dim('w1', 2, B)]), 'dict': {},
           'vec': E.stensor('w', [E.dim('w0', 2, B + 1)]), 'col': E.stensor('w', [E.dim('w0', 2, B + 1), 1]),
           'row': E.stensor('w', [1, E.dim('w0', 2, B + 1)]), 'slab': E.stensor('w', [1, E.dim('w0', 2, B + 1), 1]),
           'slab4': E.stensor('w', [1, E.dim('w0', 2, B + 1), E.dim('w1', 1, B), 1])}[s['arg']]      # (tensors with more than one element are not scalars)
    what = s['what']
    f = {
        'add': lambda: x + arg, 'radd': lambda: arg + x, 'sub': lambda: x - arg, 'mul': lambda: x * arg, 'matmul': lambda: x @ arg,
        'truediv': lambda: x / arg, 'rmul': lambda: arg * x, 'rsub': lambda: arg - x, 'kron': lambda: tt.kron(x, arg) if arg is not None else tt.kron(arg, arg), 'pow': lambda: x ** arg,
        'dot': lambda: tt.dot(x, arg), 'dot_first': lambda: tt.dot(arg, x), 'bilinear': lambda: tt.bilinear_form(x, arg, x),
        'diag': lambda: tt.diag(arg), 'permute': lambda: tt.permute(arg, [0, 1]), 'save': lambda: tt.save(arg, 'p'),
        'fast_matvec': lambda: x.fast_matvec(arg), 'zeros': lambda: tt.zeros(arg), 'ones': lambda: tt.ones(arg),
        'sum': lambda: x.sum(arg), 'getitem': lambda: x[arg], 'mprod': lambda: x.mprod(arg, 0), 'ctor': lambda: tt.TT(arg),
        'qtt_to_tens': lambda: x.qtt_to_tens(arg), 'set_core': lambda: x.set_core(0, arg),
    }[what]
    ok, z, exc = attempt(E, f)
    if ok:
        E.true('must_raise', False)
    elif s.get('class_check', True):
        E.true('documented_exception_class', exc in LIB_ERRORS)


@scenario
def c18_ctor(E, s):
    """TT(list of cores): ranks must chain, boundary ranks 1, all cores 3-d or all 4-d"""
    B = s.get('B', 3)
    d = s['d']
    nds = s['ndims']
    cores, shapes = [], []
    for k in range(d):
        shp = [E.dim('c%d_%d' % (k, i), 1, B) for i in range(nds[k])]
        shapes.append(shp)
        cores.append(E.stensor('c%d' % k, shp))
    ok, z, exc = attempt(E, lambda: E.tt.TT(cores))
    if any(n not in (3, 4) for n in nds) or len(set(nds)) != 1:
        compat = False
    else:
        compat = (shapes[0][0] == 1) & (shapes[-1][-1] == 1)
        for k in range(d - 1):
            compat = compat & (shapes[k][-1] == shapes[k + 1][0])
    if ok:
        E.true('returned_only_if_compatible', compat)
    elif s.get('class_check', True):
        E.true('documented_exception_class', exc in LIB_ERRORS)


@scenario
def c18_ctor_dense(E, s):
    """TT(dense array, shape): the element count of the array must equal that of the requested shape (tensor form: prod N;
    operator form: prod M * prod N); on return the object has the requested mode sizes"""
    B = s.get('B', 3)
    d = s['d']
    src = [E.dim('s%d' % i, 1, s.get('Bsrc', B)) for i in range(s['nsrc'])]
    N = [E.dim('n%d' % i, 1, B) for i in range(d)]
    M = [E.dim('m%d' % i, 1, B) for i in range(d)] if s.get('ttm') else None
    shape = [(m, n) for m, n in zip(M, N)] if M is not None else list(N)
    a = E.stensor('dense', src)
    if s.get('numpy'):
        a = a.numpy()
    ok, z, exc = attempt(E, lambda: E.tt.TT(a, shape, eps=1e-3))

    def prod_(xs):
        r = 1
        for v in xs:
            r = r * v
        return r
    compat = prod_(src) == prod_(N) * (prod_(M) if M is not None else 1)
    if ok:
        E.true('returned_only_if_compatible', compat)
        E.true('requested_shape', all_eq(list(z.N), N) and (M is None or all_eq(list(z.M), M)))
        E.true('full_shape', all_eq(list(z.full().shape), (M or []) + N))


@scenario
def c18_solver_guards(E, s):
    """AMEn entry points: incompatible operands (assumed by construction) must be rejected with the documented class"""
    B = s.get('B', 3)
    d = s['d']
    A, NA, MA, _ = s_tt(E, 'A', d, s.get('kA', 'ttm'), B)
    b, Nb, Mb, _ = s_tt(E, 'b', s.get('db', d), s.get('kb', 'tt'), B)
    what = s['what']
    tt = E.tt
    if s.get('kA', 'ttm') == 'ttm' and s.get('kb', 'tt') == 'tt' and s.get('db', d) == d:
        compat = all_eq(NA, Nb)
        if what == 'amen_solve':
            compat = compat & all_eq(MA, NA)
        E.assume(~compat if not isinstance(compat, bool) else (not compat))
    f = {'amen_solve': lambda: tt.solvers.amen_solve(A, b, nswp=1, use_cpp=False),
         'amen_mv': lambda: tt.amen_mv(A, b, nswp=1, use_cpp=False)}[what]
    ok, z, exc = attempt(E, f)
    if ok:
        E.true('must_raise', False)
    elif s.get('class_check', True):
        E.true('documented_exception_class', exc in LIB_ERRORS)
