"""C20 scenarios: the TT linear layer computes the dense affine map it represents."""
from .lib import scenario, dense, prod


@scenario
def tt_layer(E, s):
    tn = E.tn
    d = len(s['size_in'])
    if s.get('ctor') == 'positional':
        # the documented parameter order: size_in, size_out, rank, dtype, initializer
        layer = E.tt.nn.LinearLayerTT(list(s['size_in']), list(s['size_out']), list(s['rank']), E.dt(s['dtype']), s['init'])
    elif s.get('ctor') == 'tuples':
        # sizes and ranks given as tuples / torch.Size (as in LinearLayerTT(sample.shape, ...))
        layer = E.tt.nn.LinearLayerTT(tn.zeros(list(s['size_in'])).shape, tuple(s['size_out']), tuple(s['rank']), dtype=E.dt(s['dtype']), initializer=s['init'])
    elif s.get('ctor') == 'positional_dtype':
        layer = E.tt.nn.LinearLayerTT(list(s['size_in']), list(s['size_out']), list(s['rank']), E.dt(s['dtype']), initializer=s['init'])
    else:
        layer = E.tt.nn.LinearLayerTT(list(s['size_in']), list(s['size_out']), list(s['rank']), dtype=E.dt(s['dtype']), initializer=s['init'])
    params = list(layer.parameters())
    cores = [c for c in layer.cores]
    E.true('param_count', len(params) == d + 1)
    E.true('requires_grad', all(p.requires_grad for p in params))
    E.true('cores_registered', all(any(p is c for p in params) for c in cores))
    E.true('bias_registered', any(p is layer.bias for p in params))
    E.true('dtype', all(E.dtname(p) == s['dtype'] for p in params))
    E.true('core_shapes', all(list(c.shape) == [s['rank'][k], s['size_out'][k], s['size_in'][k], s['rank'][k + 1]] for k, c in enumerate(cores)))
    E.true('bias_shape', list(layer.bias.shape) == list(s['size_out']))
    with tn.no_grad():
        # trained weights: every parameter gets an arbitrary value
        for k, c in enumerate(cores):
            c.copy_(E.tensor('w%d' % k, list(c.shape), s['dtype']))
        layer.bias.copy_(E.tensor('b', s['size_out'], s['dtype']))
    run_dt = s['dtype']
    if s.get('convert'):
        # the layer is converted to another precision after construction (module.double() / .float() / .to(dtype))
        run_dt = s['convert_to']
        if s['convert'] == 'method':
            layer = layer.double() if run_dt == 'float64' else layer.float()
        else:
            layer = layer.to(dtype=E.dt(run_dt)) if s['convert'] == 'to_kw' else layer.to(E.dt(run_dt))
        E.true('converted', all(E.dtname(p) == run_dt for p in layer.parameters()))
    x = E.tensor('x', list(s['batch']) + list(s['size_in']), run_dt)
    if s.get('mode') == 'eval_then_update':
        # multi-step: a forward pass in eval mode, then the parameters change (as an optimizer step / load_state_dict would), then forward again
        layer.eval()
        layer(x)
        with tn.no_grad():
            for k, c in enumerate(cores):
                c.copy_(E.tensor('w2_%d' % k, list(c.shape), s['dtype']))
            layer.bias.copy_(E.tensor('b2', s['size_out'], s['dtype']))
    elif s.get('mode') == 'eval':
        layer.eval()
    elif s.get('mode') == 'load_state_dict':
        layer.eval()
        layer(x)
        sd = {k: E.tensor('sd_' + k.replace('.', '_'), list(v.shape), s['dtype']) for k, v in layer.state_dict().items()}
        layer.load_state_dict(sd)
    if s.get('mode') == 'deepcopy':
        # a deep copy of the (trained) layer is an independent layer: it keeps working on its own parameters when those change,
        # and the original is not touched by it
        import copy
        orig = layer
        layer = copy.deepcopy(orig)
        E.true('copy_has_own_parameters', all(all(p is not q for q in orig.parameters()) for p in layer.parameters()) and len(list(layer.parameters())) == d + 1)
        with tn.no_grad():
            for k, c in enumerate(layer.cores):
                c.copy_(E.tensor('w2_%d' % k, list(c.shape), s['dtype']))
            layer.bias.copy_(E.tensor('b2', s['size_out'], s['dtype']))
        Wo = dense(E, [c.detach() for c in orig.cores])
        nb0 = len(s['batch'])
        E.eq('original_after_copy_changed', orig(x), tn.tensordot(x, Wo, dims=(list(range(nb0, nb0 + d)), list(range(d, 2 * d)))) + orig.bias.detach())
    if s.get('replace_core') is not None:
        # a registered core is replaced by a new Parameter object after construction (as functional / meta-learning code does)
        k = s['replace_core']
        layer.cores[k] = E.tn.nn.Parameter(E.tensor('wr', list(cores[k].shape), run_dt))
        cores = [c for c in layer.cores]
    if s.get('first_batch') is not None:
        # the same layer object was used before with a different number of batch dimensions
        x0 = E.tensor('x0', list(s['first_batch']) + list(s['size_in']), run_dt)
        layer(x0)
    y = layer(x) if s.get('call') else layer.forward(x)
    cores = [c for c in layer.cores]
    W = dense(E, [c.detach() for c in cores])      # size_out... x size_in...
    nb = len(s['batch'])
    ref = tn.tensordot(x, W, dims=(list(range(nb, nb + d)), list(range(d, 2 * d)))) + layer.bias.detach()
    E.true('is_tensor', tn.is_tensor(y))
    E.eq('value', y, ref)
    E.true('out_dtype', E.dtname(y) == run_dt)
