"""Models of torch.linalg.qr / svd / solve (the LAPACK boundary).  See DESIGN.md 2.5.

MODE 'exact' : A-scalar inputs; structural SVD (rows or columns with pairwise disjoint structural supports,
               1-row / 1-column inputs for arbitrary values) and symbolic Gram-Schmidt QR.  Anything else ends the
               path as unsupported ("outside the class").
MODE 'havoc' : fresh unconstrained outputs of the right shape (used only where values do not matter).
SIGNS        : when True every factor pair carries a sign symbol eps (eps^2 = 1): the freedom the factorization
               contract leaves open.
"""
from fractions import Fraction
import numpy as _np

from .explorer import cur, unsupported, SymBool
from .scalar import C
from . import apoly as A
from . import symtorch as st

MODE = 'exact'
SIGNS = False
ASSUME_FULL_RANK = True     # QR inputs with symbolic (sign-free) entries: assume the Gram-Schmidt pivots are non-zero
MAX_TERMS = 4000
STATS = {'svd_structural': 0, 'qr_gs': 0, 'havoc': 0}


def _is0(v):
    if isinstance(v, C):
        return A.is_structural_zero(v.re) and A.is_structural_zero(v.im)
    if isinstance(v, complex):
        return v == 0
    return A.is_structural_zero(v)


def _check_entries(a):
    for v in a.flat:
        for w in ((v.re, v.im) if isinstance(v, C) else (v,)):
            if isinstance(w, A.P):
                continue
            if A._num(w) is not None:
                continue
            unsupported('factorization of non A-scalar data (%s)' % type(w).__name__)


def _support(vec):
    return frozenset(j for j, v in enumerate(vec) if not _is0(v))


def _conj(v):
    return v.conjugate() if isinstance(v, C) else v


def _abs2(v):
    if isinstance(v, C):
        return v.re * v.re + v.im * v.im
    return v * v


def _norm2(vec):
    s = 0
    for v in vec:
        if not _is0(v):
            s = s + _abs2(v)
    return s


def _size_guard(v):
    for w in ((v.re, v.im) if isinstance(v, C) else (v,)):
        if isinstance(w, A.P) and len(w.t) > MAX_TERMS:
            unsupported('expression blow-up in the factorization model (%d terms)' % len(w.t))


def _real_dtype(dt):
    if dt.is_complex:
        return st.float64 if dt.bits == 128 else st.float32
    return dt


def _obj(shape, fill=0):
    a = _np.empty(shape, dtype=object)
    a[...] = fill
    return a


def _sort_desc(items):
    """insertion sort of (sq, payload) by sq descending; comparisons go through the explorer (solver-decided branches)"""
    out = []
    for it in items:
        pos = len(out)
        for k, o in enumerate(out):
            c = it[0] > o[0]
            if c:
                pos = k
                break
        out.insert(pos, it)
    return out


def _svd_rows_disjoint(M):
    m, n = M.shape
    k = min(m, n)
    rows = [(i, _support(M[i, :])) for i in range(m)]
    nz = [(i, s) for i, s in rows if s]
    used = set()
    for i, s in nz:
        if used & s:
            return None
        used |= s
    if len(nz) > k:
        return None
    items = []
    numerically_zero = []
    for i, s in nz:
        n2 = _norm2(M[i, :])
        sv = A.sqrt(n2)          # sign-free entries: forks on "row is numerically zero"
        if _is0(sv):
            numerically_zero.append(i)
            continue
        items.append((n2, i, sv))
    items = _sort_desc(items)
    S = _obj((k,))
    U = _obj((m, k))
    V = _obj((k, n))
    zero_rows = [i for i, s in rows if not s] + numerically_zero
    zero_cols = [j for j in range(n) if j not in used]
    c = 0
    for n2, i, sv in items:
        S[c] = sv
        e = A.new_sign('sg') if SIGNS else 1
        U[i, c] = e
        for j in range(n):
            if not _is0(M[i, j]):
                V[c, j] = e * (M[i, j] / sv)
        c += 1
    # completion for zero singular values
    while c < k:
        if zero_rows:
            U[zero_rows.pop(0), c] = 1
        else:
            return None
        if zero_cols:
            V[c, zero_cols.pop(0)] = 1
        else:
            for j in range(n):
                V[c, j] = A.new_free('nullV')
        c += 1
    return U, S, V


def svd(t, full_matrices=True):
    if t.a.ndim != 2:
        unsupported('svd of a non-matrix')
    if full_matrices:
        unsupported('svd(full_matrices=True)')
    m, n = t.a.shape
    k = min(m, n)
    if MODE == 'havoc':
        STATS['havoc'] += 1
        sdt = t.dtype if not t.dtype.is_complex else (st.float64 if t.dtype.bits == 128 else st.float32)
        return (st._fresh_tensor((m, k), t.dtype, 'svdU'), st._fresh_tensor((k,), sdt, 'svdS'), st._fresh_tensor((k, n), t.dtype, 'svdV'))
    _check_entries(t.a)
    if m == 0 or n == 0:
        unsupported('svd of an empty matrix')
    r = _svd_rows_disjoint(t.a)
    if r is None:
        rt = _svd_rows_disjoint(t.a.T)
        if rt is None:
            unsupported('svd input outside the structurally-orthogonal class (%dx%d)' % (m, n))
        Ut, S, Vt = rt
        r = (Vt.T, S, Ut.T)
    STATS['svd_structural'] += 1
    U, S, V = r
    return st.Tensor(U, t.dtype), st.Tensor(S, _real_dtype(t.dtype)), st.Tensor(V, t.dtype)


def qr(t, mode='reduced'):
    if t.a.ndim != 2:
        unsupported('qr of a non-matrix')
    m, n = t.a.shape
    k = min(m, n)
    if MODE == 'havoc':
        STATS['havoc'] += 1
        return st._fresh_tensor((m, k), t.dtype, 'qrQ'), st._fresh_tensor((k, n), t.dtype, 'qrR')
    _check_entries(t.a)
    if m == 0 or n == 0:
        unsupported('qr of an empty matrix')
    M = t.a
    from . import autograd
    tracked = autograd.ENABLED and (t.requires_grad or t.grad_fn is not None)
    if tracked and t.dtype.is_complex:
        unsupported('qr of a tracked complex tensor')
    if m == 1 and not tracked and not SIGNS:
        return _qr_one_row(t)
    Q = _obj((m, k))
    R = _obj((k, n))
    qs = []
    used_rows = set()
    rotated = set()
    for j in range(n):
        col = [M[i, j] for i in range(m)]
        if len(qs) < k:
            v = list(col)
            for c, q in enumerate(qs):
                r = 0
                for i in range(m):
                    if not _is0(q[i]) and not _is0(col[i]):
                        r = r + _conj(q[i]) * col[i]
                if _is0(r):
                    continue
                _size_guard(r)
                R[c, j] = r
                for i in range(m):
                    if not _is0(q[i]):
                        v[i] = v[i] - r * q[i]
            n2 = _norm2(v)
            _size_guard(n2)
            if _is0(n2):
                # (structurally) dependent column: R_jj = 0, Q column = any unit vector orthogonal to the others
                # (Gram-Schmidt orthogonalises the later columns against it, so any unit vector orthogonal to the
                #  previous q's is a valid choice; rows that are structurally zero in M are preferred)
                free = [i for i in range(m) if all(_is0(q[i]) for q in qs) and i not in used_rows]
                free.sort(key=lambda i: sum(0 if _is0(M[i, jj]) else 1 for jj in range(n)))
                if free:
                    q = [0] * m
                    q[free[0]] = 1
                    used_rows.add(free[0])
                    qs.append(q)
                    continue
                # no free row: rotate a previous q that lives on exactly two rows which no other q touches: (u, v) -> (v, -u)
                done = False
                for ci, qc in enumerate(qs):
                    sup = [i for i in range(m) if not _is0(qc[i])]
                    if len(sup) != 2 or ci in rotated:
                        continue
                    if any(not _is0(qo[i]) for oi, qo in enumerate(qs) if oi != ci for i in sup):
                        continue
                    q = [0] * m
                    q[sup[0]] = _conj(qc[sup[1]])
                    q[sup[1]] = -_conj(qc[sup[0]])
                    rotated.add(ci)
                    qs.append(q)
                    done = True
                    break
                if not done:
                    unsupported('rank-deficient qr input outside the model')
                continue
            if tracked:
                # torch's QR backward is singular where a Gram-Schmidt pivot vanishes: on a tracked input this point is part of the claim
                z_ = (n2 == 0)
                if z_:
                    raise RuntimeError('symtorch: linalg.qr backward is undefined for a rank-deficient tracked input (gradients would be non-finite)')
            rho = A.sqrt(n2, assume_pos=ASSUME_FULL_RANK)
            if _is0(rho):
                unsupported('numerically dependent column in qr input (degenerate branch)')
            e = A.new_sign('sg') if SIGNS else 1
            q = [0 if _is0(x) else e * (x / rho) for x in v]
            for x in q:
                _size_guard(x)
            R[len(qs), j] = e * rho
            qs.append(q)
        else:
            # wide matrix: remaining columns only contribute to R = Q^T A
            for c, q in enumerate(qs):
                r = 0
                for i in range(m):
                    if not _is0(q[i]) and not _is0(col[i]):
                        r = r + _conj(q[i]) * col[i]
                R[c, j] = r
    while len(qs) < k:
        free = [i for i in range(m) if all(_is0(q[i]) for q in qs)]
        if not free:
            unsupported('cannot complete Q')
        q = [0] * m
        q[free[0]] = 1
        qs.append(q)
    for c, q in enumerate(qs):
        for i in range(m):
            Q[i, c] = q[i]
    STATS['qr_gs'] += 1
    return st._mk(Q, t.dtype, (t,)), st._mk(R, t.dtype, (t,))


def _qr_one_row(t):
    """QR of a 1 x n matrix exactly as LAPACK computes it (the only case where the code under test can observe the
    factor's sign/phase without any other factor compensating): real: no reflector, Q = [1], R = M.  complex (zlarfg):
    Q = [1] if Im(alpha) == 0, otherwise beta = -sign(Re alpha) |alpha|, Q = [alpha / beta], R = conj(Q) M with R_00 = beta."""
    M = t.a
    n = M.shape[1]
    Q = _obj((1, 1))
    R = _obj((1, n))
    alpha = M[0, 0]
    STATS['qr_gs'] += 1
    if not isinstance(alpha, C) or _is0(alpha) or (alpha.im == 0):
        Q[0, 0] = 1
        for j in range(n):
            R[0, j] = M[0, j]
        return st._mk(Q, t.dtype, (t,)), st._mk(R, t.dtype, (t,))
    mod = A.sqrt(_abs2(alpha), assume_pos=True)
    beta = -mod if (alpha.re >= 0) else mod
    u = alpha / beta
    Q[0, 0] = u
    R[0, 0] = beta
    for j in range(1, n):
        R[0, j] = _conj(u) * M[0, j]
    return st._mk(Q, t.dtype, (t,)), st._mk(R, t.dtype, (t,))


def solve(Amat, b):
    if MODE == 'havoc':
        STATS['havoc'] += 1
        if Amat.a.ndim != 2 or Amat.a.shape[0] != Amat.a.shape[1] or b.a.shape[0] != Amat.a.shape[0]:
            raise RuntimeError('linalg.solve: incompatible shapes')
        return st._fresh_tensor(b.a.shape, b.dtype, 'solve')
    unsupported('linalg.solve (exact)')
