"""Runs scenarios on the real code (/repo) with real torch. Invoked as
   /venv/bin/python -m tv.real_main jobs.json out.json   (PYTHONPATH=/repo:/verif)"""
import sys
import json
import copy
import warnings
import traceback

warnings.filterwarnings('ignore')


def main():
    jobs = json.load(open(sys.argv[1]))
    import importlib
    import pkgutil
    import torch
    torch.set_num_threads(2)
    from tv.realenv import RealEnv, AssumeFailed
    from tv.scen import lib
    from tv import scen
    for m in pkgutil.iter_modules(scen.__path__):
        importlib.import_module('tv.scen.' + m.name)
    out = []
    for j in jobs:
        E = RealEnv(inputs=j.get('inputs'), seed=j.get('seed'))
        r = {'id': j['id'], 'exc': None}
        try:
            lib.SCEN[j['scen']](E, copy.deepcopy(j['s']))
        except AssumeFailed:
            r['precondition_failed'] = True
        except Exception as e:
            r['exc'] = type(e).__name__
            E.results.append({'label': 'exception', 'status': 'violated',
                              'detail': '%s: %s' % (type(e).__name__, str(e)[:300]),
                              'tb': traceback.format_exc()[-800:]})
        r['results'] = E.results
        r['outputs'] = E.outputs
        out.append(r)
    json.dump(out, open(sys.argv[2], 'w'))


if __name__ == '__main__':
    main()
