"""numpy facade seen by the loaded torchtt modules (``import numpy as np``).

Every attribute falls through to the real numpy unless overridden here.  The
overrides make the handful of numpy calls that touch symbolic data work on
``ndarray`` (a thin wrapper around an object array, produced by
``Tensor.numpy()``) and stay *type faithful* (``argmax`` returns ``np.int64``).
"""
import types
import numpy as _np
from fractions import Fraction

from .explorer import SymBool, unsupported
from .scalar import Z, C, SymInt, zsqrt
from . import scalar as _sc


class _NdMeta(type):
    def __instancecheck__(cls, obj):
        return type.__instancecheck__(cls, obj) or isinstance(obj, _np.ndarray) or type(obj).__name__ == 'NDArray'


class ndarray(metaclass=_NdMeta):
    """numpy-array stand-in holding symbolic entries."""
    __array_ufunc__ = None

    def __init__(self, a, tdtype=None):
        if not isinstance(a, _np.ndarray):
            b = _np.empty((), dtype=object)
            b[()] = a
            a = b
        self.a = a
        self.tdtype = tdtype

    @property
    def shape(self):
        return self.a.shape

    @property
    def size(self):
        return int(self.a.size)

    @property
    def ndim(self):
        return self.a.ndim

    @property
    def dtype(self):
        from . import symtorch as st
        return {st.float64: _np.dtype('float64'), st.float32: _np.dtype('float32'),
                st.complex128: _np.dtype('complex128'), st.complex64: _np.dtype('complex64'),
                st.int64: _np.dtype('int64')}.get(self.tdtype, _np.dtype('float64'))

    def __len__(self):
        return self.a.shape[0]

    def _w(self, a):
        if isinstance(a, _np.ndarray):
            return ndarray(a, self.tdtype)
        return a

    def __getitem__(self, k):
        r = self.a[k]
        return self._w(r)

    def __setitem__(self, k, v):
        if type(v).__name__ == 'Tensor' and hasattr(v, 'a'):
            if v.a.size != 1:
                raise ValueError('setting an array element with a sequence.')
            v = v.a.reshape(-1)[0]          # numpy stores float(tensor)
        elif isinstance(v, ndarray):
            v = v.a
        self.a[k] = v

    def _bin(self, o, f):
        ov = o.a if isinstance(o, ndarray) else o
        if isinstance(ov, _np.generic):
            ov = ov.item()
        if not isinstance(ov, _np.ndarray):
            b = _np.empty((), dtype=object)
            b[()] = ov
            ov = b
        r = f(self.a, ov)
        if isinstance(r, _np.ndarray) and r.ndim == 0 and self.a.ndim == 0:
            return ndarray(r, self.tdtype)
        return self._w(r)

    def __add__(self, o):
        return self._bin(o, lambda x, y: x + y)

    __radd__ = __add__

    def __sub__(self, o):
        return self._bin(o, lambda x, y: x - y)

    def __rsub__(self, o):
        return self._bin(o, lambda x, y: y - x)

    def __mul__(self, o):
        return self._bin(o, lambda x, y: x * y)

    __rmul__ = __mul__

    def __truediv__(self, o):
        return self._bin(o, lambda x, y: x / y)

    def __rtruediv__(self, o):
        return self._bin(o, lambda x, y: y / x)

    def _inplace(self, o, f):
        # numpy in-place operators write into the array's own buffer (shared with the torch tensor it came from)
        ov = o.a if isinstance(o, ndarray) else o
        if isinstance(ov, _np.generic):
            ov = ov.item()
        r = f(self.a, ov) if isinstance(ov, _np.ndarray) else f(self.a, _scal(ov))
        self.a[...] = r
        return self

    def __itruediv__(self, o):
        return self._inplace(o, lambda x, y: x / y)

    def __imul__(self, o):
        return self._inplace(o, lambda x, y: x * y)

    def __iadd__(self, o):
        return self._inplace(o, lambda x, y: x + y)

    def __isub__(self, o):
        return self._inplace(o, lambda x, y: x - y)

    def __pow__(self, n):
        return self._w(self.a ** n)

    def __neg__(self):
        return self._w(-self.a)

    def _cmp(self, o, f):
        ov = o.a if isinstance(o, ndarray) else o
        if isinstance(ov, _np.generic):
            ov = ov.item()
        if not isinstance(ov, _np.ndarray):
            b = _np.empty((), dtype=object)
            b[()] = ov
            ov = b
        r = _np.frompyfunc(f, 2, 1)(self.a, ov)
        if not isinstance(r, _np.ndarray):
            return r
        if r.ndim == 0:
            return r[()]
        return ndarray(r)

    def __lt__(self, o):
        return self._cmp(o, lambda x, y: x < y)

    def __le__(self, o):
        return self._cmp(o, lambda x, y: x <= y)

    def __gt__(self, o):
        return self._cmp(o, lambda x, y: x > y)

    def __ge__(self, o):
        return self._cmp(o, lambda x, y: x >= y)

    def __eq__(self, o):
        return self._cmp(o, lambda x, y: x == y)

    def __ne__(self, o):
        return self._cmp(o, lambda x, y: x != y)

    __hash__ = None

    def __bool__(self):
        if self.a.size != 1:
            raise ValueError('The truth value of an array with more than one element is ambiguous')
        return bool(self.a.reshape(())[()])

    def __float__(self):
        return float(self.a.reshape(())[()])

    def item(self):
        return self.a.reshape(())[()]

    def copy(self):
        return ndarray(self.a.copy(), self.tdtype)

    def flatten(self):
        return ndarray(self.a.flatten(), self.tdtype)

    def reshape(self, *s):
        if len(s) == 1 and isinstance(s[0], (list, tuple)):
            s = s[0]
        return ndarray(self.a.reshape(s), self.tdtype)

    def transpose(self, *ax):
        return ndarray(self.a.transpose(*ax), self.tdtype)

    @property
    def T(self):
        return ndarray(self.a.T, self.tdtype)

    def t(self):
        # torch method called on a numpy array in SVD()'s fallback: numpy has no .t()
        raise AttributeError("'numpy.ndarray' object has no attribute 't'")

    def tolist(self):
        return self.a.tolist()

    def __iter__(self):
        for i in range(self.a.shape[0]):
            yield self[i]

    def __repr__(self):
        return 'symndarray(%s)' % (list(self.a.shape),)


def _scal(v):
    b = _np.empty((), dtype=object)
    b[()] = v
    return b


def ndarray_from_tensor(t):
    return ndarray(t.a, t.dtype)


def _is_sym(x):
    return isinstance(x, ndarray) and type(x) is ndarray


def _norm(x, *a, **k):
    if _is_sym(x):
        if a or k:
            unsupported('np.linalg.norm with arguments')
        s = 0
        for v in x.a.flat:
            if isinstance(v, (C, complex)):
                s = s + _sc.re_part(v) * _sc.re_part(v) + _sc.im_part(v) * _sc.im_part(v)
            else:
                s = s + v * v
        from . import symtorch as st
        return st._sqrt_scalar(s)
    return _np.linalg.norm(x, *a, **k)


def _svd(x, *a, **k):
    if _is_sym(x):
        unsupported('np.linalg.svd on symbolic data')
    return _np.linalg.svd(x, *a, **k)


class _Linalg(types.ModuleType):
    def __getattr__(self, name):
        return getattr(_np.linalg, name)


linalg = _Linalg('numpy.linalg')
linalg.norm = _norm
linalg.svd = _svd


def _abs(x):
    if _is_sym(x):
        f = _np.frompyfunc(lambda v: abs(v), 1, 1)
        return ndarray(f(x.a) if x.a.size else x.a.copy(), x.tdtype)
    if isinstance(x, (Z, C, SymInt)):
        return abs(x)
    return _np.abs(x)


def _cumsum(x, *a, **k):
    if _is_sym(x):
        if a or k or x.a.ndim != 1:
            unsupported('np.cumsum form')
        out = _np.empty(x.a.shape, dtype=object)
        s = 0
        for i, v in enumerate(x.a):
            s = s + v
            out[i] = s
        return ndarray(out, x.tdtype)
    return _np.cumsum(x, *a, **k)


def _argmax(x, *a, **k):
    if _is_sym(x):
        if a or k or x.a.ndim != 1:
            unsupported('np.argmax form')
        vals = list(x.a)
        if all(isinstance(v, (bool, SymBool, _np.bool_)) for v in vals):
            for i, v in enumerate(vals):
                if v:
                    return _np.int64(i)
            return _np.int64(0)
        # numeric argmax: first maximal element
        best = 0
        for i in range(1, len(vals)):
            if vals[i] > vals[best]:
                best = i
        return _np.int64(best)
    return _np.argmax(x, *a, **k)


def _sqrt(x):
    if isinstance(x, (Z, SymInt)):
        return zsqrt(Z.lift(x))
    if _is_sym(x):
        from . import symtorch as st
        f = _np.frompyfunc(st._sqrt_scalar, 1, 1)
        return ndarray(f(x.a), x.tdtype)
    if hasattr(x, 'sqrt') and not isinstance(x, (_np.ndarray, _np.generic)):
        return x.sqrt()
    return _np.sqrt(x)


def _prod(x, *a, **k):
    if isinstance(x, (list, tuple)) and any(isinstance(v, (SymInt, Z)) or type(v).__name__ == 'P' for v in x):
        r = 1
        for v in x:
            r = r * v
        return r
    if _is_sym(x):
        r = 1
        for v in x.a.flat:
            r = r * v
        return r
    return _np.prod(x, *a, **k)


def _sum(x, *a, **k):
    if _is_sym(x):
        if a or k:
            unsupported('np.sum with arguments')
        s = 0
        for v in x.a.flat:
            s = s + v
        return s
    return _np.sum(x, *a, **k)


def _array(x, *a, **k):
    if _is_sym(x):
        return x.copy()
    return _np.array(x, *a, **k)


def _isscalar(x):
    if isinstance(x, (Z, C, SymInt)) or type(x).__name__ == 'P':
        return True
    return _np.isscalar(x)


def _max(x, *a, **k):
    if _is_sym(x):
        if a or k:
            unsupported('np.max with arguments')
        vals = list(x.a.flat)
        if not vals:
            raise ValueError('zero-size array to reduction operation maximum which has no identity')
        best = vals[0]
        for v in vals[1:]:
            if v > best:          # symbolic comparison: decided by the explorer
                best = v
        return best
    return _np.max(x, *a, **k)


def _min(x, *a, **k):
    if _is_sym(x):
        if a or k:
            unsupported('np.min with arguments')
        vals = list(x.a.flat)
        if not vals:
            raise ValueError('zero-size array to reduction operation minimum which has no identity')
        best = vals[0]
        for v in vals[1:]:
            if v < best:
                best = v
        return best
    return _np.min(x, *a, **k)


def _symbolic_arg(x, depth=0):
    from . import apoly
    if isinstance(x, (Z, C, SymInt, SymBool, apoly.P)):
        return True
    if type(x).__name__ in ('Tensor', 'NDArray') or type.__instancecheck__(ndarray, x):
        return True
    if isinstance(x, _np.ndarray) and x.dtype == object:
        return True
    if depth < 2 and isinstance(x, (list, tuple)):
        return any(_symbolic_arg(v, depth + 1) for v in x)
    return False


def _guarded(name, f):
    def g(*a, **k):
        if any(_symbolic_arg(v) for v in a) or any(_symbolic_arg(v) for v in k.values()):
            unsupported('numpy.%s on symbolic data is not modelled' % name)
        return f(*a, **k)
    g.__name__ = name
    return g


class _Facade(types.ModuleType):
    def __getattr__(self, name):
        v = getattr(_np, name)
        if callable(v) and not isinstance(v, type):
            # a real numpy function applied to symbolic data would answer about the wrapper objects, not about the values
            return _guarded(name, v)
        return v


facade = _Facade('numpy')
facade.ndarray = ndarray
facade.linalg = linalg
facade.abs = _abs
facade.absolute = _abs
facade.cumsum = _cumsum
facade.argmax = _argmax
facade.sqrt = _sqrt
facade.prod = _prod
facade.sum = _sum
facade.array = _array
facade.asarray = _array
facade.isscalar = _isscalar


def _iscomplexobj(x):
    if isinstance(x, (C, complex, _np.complexfloating)):
        return True
    dt = getattr(x, 'tdtype', None) or getattr(x, 'dtype', None)
    if dt is not None and hasattr(dt, 'is_complex'):
        return bool(dt.is_complex)
    if isinstance(x, (Z, SymInt, int, float)):
        return False
    if _symbolic_arg(x):
        from . import apoly
        if isinstance(x, apoly.P):
            return False
        unsupported('numpy.iscomplexobj on this symbolic object')
    return bool(_np.iscomplexobj(x))


facade.iscomplexobj = _iscomplexobj


def _raw(x):
    """object array behind a shim Tensor / ndarray wrapper / real array / scalar"""
    if type(x).__name__ == 'Tensor' and hasattr(x, 'a'):
        return x.a
    if type.__instancecheck__(ndarray, x):
        return x.a
    if isinstance(x, _np.ndarray):
        return x.astype(object)
    b = _np.empty((), dtype=object)
    b[()] = x
    return b


def _has_symint(a):
    return any(isinstance(v, SymInt) for v in a.flat)


def _unravel_index(indices, shape, order='C'):
    a = _raw(indices)
    if not _has_symint(a):
        return _np.unravel_index(_np.array(a.tolist(), dtype=_np.int64) if a.ndim else int(a[()]), shape, order)
    if order != 'C':
        unsupported('unravel_index order')
    shape = [int(n) for n in shape]
    tot = 1
    for n in shape:
        tot *= n
    import z3
    from .explorer import cur
    outs = [_np.empty(a.shape, dtype=object) for _ in shape]
    it = _np.ndindex(a.shape) if a.ndim else [()]
    for ix in it:
        v = SymInt.lift(a[ix]) if not isinstance(a[ix], SymInt) else a[ix]
        if not SymBool(z3.And(v.t >= 0, v.t < tot)):
            raise ValueError('index out of bounds for array with size %d' % tot)
        rem = v
        for k in range(len(shape) - 1, -1, -1):
            n = shape[k]
            outs[k][ix] = SymInt(z3.simplify(rem.t % n)) if n != 1 else 0
            rem = SymInt(rem.t / n) if n != 1 else rem
    from . import symtorch as st
    if a.ndim == 0:
        return tuple(o[()] for o in outs)
    return tuple(ndarray(o, st.int64) for o in outs)


def _stack_sym(arrs, axis_fn):
    from . import symtorch as st
    raws = [_raw(x) for x in arrs]
    if not any(_symbolic_arg(x) for x in arrs):
        return None
    r = axis_fn([r_ if r_.ndim else r_.reshape(1) for r_ in raws])
    cats = [getattr(x, 'tdtype', None) or getattr(x, 'dtype', None) for x in arrs]
    dt = st.int64
    for c in cats:
        if c is not None and hasattr(c, 'cat') and c.cat >= 2:
            dt = c
    return ndarray(r, dt)


def _vstack(arrs, **k):
    r = _stack_sym(list(arrs), lambda xs: _np.vstack([x.astype(object) for x in xs]))
    return r if r is not None else _np.vstack(arrs, **k)


def _hstack(arrs, **k):
    r = _stack_sym(list(arrs), lambda xs: _np.hstack([x.astype(object) for x in xs]))
    return r if r is not None else _np.hstack(arrs, **k)


def _havoc_mode():
    from . import symtorch as st
    return st._FRESH is st.havoc_fresh


def _ones(shape, *a, **k):
    if _havoc_mode() and not a and not k:
        from . import symtorch as st
        r = _np.ones(shape).astype(object)
        return ndarray(r, st.float64)
    return _np.ones(shape, *a, **k)


def _zeros(shape, *a, **k):
    if _havoc_mode() and not a and not k:
        from . import symtorch as st
        r = _np.zeros(shape).astype(object)
        return ndarray(r, st.float64)
    return _np.zeros(shape, *a, **k)


def _elementwise(name, f):
    def g(x, *a, **k):
        if isinstance(x, _sc.Havoc):
            return _sc.HAVOC
        if _is_sym(x):
            if any(isinstance(v, _sc.Havoc) for v in x.a.flat):
                r = _np.empty(x.a.shape, dtype=object)
                r[...] = _sc.HAVOC
                return ndarray(r, x.tdtype) if r.ndim else _sc.HAVOC
            if all(isinstance(v, (int, float)) for v in x.a.flat) and not a and not k:
                return ndarray(f(x.a.astype(float)).astype(object), x.tdtype)
            unsupported('numpy.%s on symbolic data' % name)
        if _symbolic_arg(x):
            unsupported('numpy.%s on symbolic data' % name)
        return f(x, *a, **k)
    return g


def _tensordot(a, b, axes=2):
    if not (_symbolic_arg(a) or _symbolic_arg(b)):
        return _np.tensordot(a, b, axes=axes)
    ra, rb = _raw(a), _raw(b)
    r = _np.tensordot(ra.astype(object), rb.astype(object), axes=axes)
    if not isinstance(r, _np.ndarray):
        r = _raw(r)
    return ndarray(r, getattr(a, 'tdtype', None) or getattr(b, 'tdtype', None))


def _transpose(a, axes=None):
    if not _symbolic_arg(a):
        return _np.transpose(a, axes)
    return ndarray(_np.transpose(_raw(a), axes), getattr(a, 'tdtype', None))


def _einsum_np(eq, *ops, **k):
    if not any(_symbolic_arg(o) for o in ops):
        return _np.einsum(eq, *ops, **k)
    from . import symtorch as st
    ts = [st.Tensor(_raw(o), getattr(o, 'tdtype', None) or st.float64) for o in ops]
    r = st.einsum(eq, *ts)
    return ndarray(r.a, r.dtype)


facade.tensordot = _tensordot
facade.transpose = _transpose
facade.einsum = _einsum_np
facade.ones = _ones
facade.zeros = _zeros
facade.exp = _elementwise('exp', _np.exp)
facade.log = _elementwise('log', _np.log)
facade.unravel_index = _unravel_index
facade.vstack = _vstack
facade.hstack = _hstack
facade.iscomplex = lambda x: unsupported('numpy.iscomplex') if _symbolic_arg(x) else _np.iscomplex(x)
facade.max = _max
facade.amax = _max
facade.min = _min
facade.amin = _min
facade.__version__ = _np.__version__
