"""A-scalars: exact Laurent polynomials over Q in input symbols, root symbols and sign symbols.

  P = { monomial : Fraction },  monomial = tuple of (symbol id, exponent), sorted by id, exponents != 0.

Symbol kinds
  pos   : strictly positive real input (magnitudes, eps)
  real  : unconstrained real input
  root  : rho >= 0 with rho^2 == radicand (a polynomial); created by sqrt(), memoised on the radicand
  sign  : eps with eps^2 == 1 (sign freedom of LAPACK factorizations)
  free  : unconstrained symbol standing for a value the factorization contract leaves open (null-space completions)

Multiplication rewrites rho^k (k >= 2) with the radicand and sign^2 -> 1; negative exponents are kept and cleared
(by positive monomials) before a comparison is handed to z3.  Every comparison is decided by z3 together with the
side constraints of exactly the symbols that occur in it (cone of influence).
"""
from fractions import Fraction
import math
import z3

from .explorer import SymBool, cur, active, unsupported

_isinstance = isinstance


SQUARE_VARS = True


class SymTab:
    """per-path symbol table (deterministic ids/names per path)"""

    def __init__(self):
        self.kind = []
        self.name = []
        self.rad = []       # radicand for roots
        self.pos = []       # known strictly positive
        self.z3v = []
        self.z3sq = []      # z3 variable standing for the square of a 'pos' symbol (degree halving)
        self.odd = []       # has the symbol itself (odd power) been used in a z3 term on this path?
        self.rootmemo = {}
        self.linked = set()
        self.bounds = {}
        self.nonneg = set() # keys of polynomials known to be sums of squares (registered by sum_of_squares)
        self.defn = {}      # cut symbols: defining expression (value), used by exact evaluation

    def new(self, name, kind, rad=None, pos=False, lo=None, hi=None):
        i = len(self.kind)
        self.kind.append(kind)
        self.name.append('%s#%d' % (name, i))
        self.rad.append(rad)
        self.pos.append(pos or kind == 'pos' or (kind == 'dim' and lo is not None and lo >= 1))
        self.bounds[i] = (lo, hi)
        self.z3v.append(z3.Int('%s#%d' % (name, i)) if kind == 'dim' else z3.Real('%s#%d' % (name, i)))
        self.z3sq.append(z3.Real('%s#%d^2' % (name, i)) if kind == 'pos' and SQUARE_VARS else None)
        self.odd.append(False)
        return i


def tab():
    ctx = cur()
    t = getattr(ctx, '_symtab', None)
    if t is None or getattr(ctx, '_symtab_path', None) is not ctx.pc:
        # a new path re-creates ctx.pc (list identity changes): fresh table
        t = SymTab()
        ctx._symtab = t
        ctx._symtab_path = ctx.pc
    return t


def _num(v):
    if _isinstance(v, bool):
        return Fraction(int(v))
    if _isinstance(v, (int, Fraction)):
        return Fraction(v)
    if _isinstance(v, float):
        return Fraction(v)
    import numpy as np
    if _isinstance(v, np.integer):
        return Fraction(int(v))
    if _isinstance(v, np.floating):
        return Fraction(float(v))
    return None


def _mono_mul(a, b):
    if not a:
        return b
    if not b:
        return a
    d = dict(a)
    for s, e in b:
        ne = d.get(s, 0) + e
        if ne == 0:
            d.pop(s, None)
        else:
            d[s] = ne
    return tuple(sorted(d.items()))


class P:
    __slots__ = ('t',)
    __array_ufunc__ = None

    def __init__(self, terms=None):
        self.t = terms or {}

    # ---- construction
    @staticmethod
    def const(c):
        c = Fraction(c)
        return P({(): c}) if c != 0 else P({})

    @staticmethod
    def sym(i):
        return P({((i, 1),): Fraction(1)})

    @staticmethod
    def lift(v):
        if _isinstance(v, P):
            return v
        c = _num(v)
        if c is None:
            return None
        return P.const(c)

    def is_zero(self):
        return not self.t

    def is_const(self):
        return all(m == () for m in self.t)

    def const_value(self):
        return self.t.get((), Fraction(0))

    def symbols(self):
        s = set()
        for m in self.t:
            for i, _ in m:
                s.add(i)
        return s

    # ---- arithmetic
    def __add__(self, o):
        o = P.lift(o)
        if o is None:
            return NotImplemented
        if not o.t:
            return self
        if not self.t:
            return o
        d = dict(self.t)
        for m, c in o.t.items():
            nc = d.get(m, 0) + c
            if nc == 0:
                d.pop(m, None)
            else:
                d[m] = nc
        return P(d) if d else 0

    __radd__ = __add__

    def __neg__(self):
        return P({m: -c for m, c in self.t.items()})

    def __pos__(self):
        return self

    def __sub__(self, o):
        o = P.lift(o)
        if o is None:
            return NotImplemented
        return self + (-o)

    def __rsub__(self, o):
        o = P.lift(o)
        if o is None:
            return NotImplemented
        return o + (-self)

    def __mul__(self, o):
        o = P.lift(o)
        if o is None:
            return NotImplemented
        if not self.t or not o.t:
            return 0
        d = {}
        for m1, c1 in self.t.items():
            for m2, c2 in o.t.items():
                m = _mono_mul(m1, m2)
                d[m] = d.get(m, 0) + c1 * c2
        r = P({m: c for m, c in d.items() if c != 0})
        r = r.reduce()
        if not r.t:
            return 0
        return r

    __rmul__ = __mul__

    def reduce(self):
        """rewrite root^k (k>=2) by the radicand and sign^k by sign^(k mod 2) until stable"""
        T = tab()
        changed = True
        cur_ = self
        guard = 0
        while changed:
            changed = False
            guard += 1
            if guard > 50:
                unsupported('apoly reduce does not terminate')
            out = {}
            for m, c in cur_.t.items():
                hit = None
                for s, e in m:
                    k = T.kind[s]
                    if k == 'sign' and (e >= 2 or e < 0):
                        hit = (s, e)
                        break
                    if k == 'root' and e >= 2:
                        hit = (s, e)
                        break
                if hit is None:
                    out[m] = out.get(m, 0) + c
                    continue
                changed = True
                s, e = hit
                rest = tuple((a, b) for a, b in m if a != s)
                if T.kind[s] == 'sign':
                    ne = e % 2
                    m2 = _mono_mul(rest, ((s, ne),)) if ne else rest
                    out[m2] = out.get(m2, 0) + c
                else:
                    rad = T.rad[s]
                    ne = e - 2
                    base = _mono_mul(rest, ((s, ne),)) if ne else rest
                    for mr, cr in rad.t.items():
                        m2 = _mono_mul(base, mr)
                        out[m2] = out.get(m2, 0) + c * cr
            cur_ = P({m: c for m, c in out.items() if c != 0})
        return cur_

    def is_monomial(self):
        return len(self.t) == 1

    def inv(self):
        if not self.is_monomial():
            unsupported('division by a non-monomial polynomial')
        (m, c), = self.t.items()
        T = tab()
        for s, e in m:
            if not T.pos[s] and T.kind[s] != 'sign':
                unsupported('division by a symbol not known to be non-zero')
        mi = tuple((s, (-e if T.kind[s] != 'sign' else e)) for s, e in m)
        return P({mi: 1 / c})

    def __truediv__(self, o):
        c = _num(o)
        if c is not None:
            if c == 0:
                import numpy as np
                if _isinstance(o, np.floating):
                    # python float / numpy 0.0 -> inf (numpy semantics, RuntimeWarning only); sign from the numerator when evident
                    sk = self.sign_known()
                    if sk is not None and sk > 0:
                        return float('inf')
                    if sk is not None and sk < 0:
                        return float('-inf')
                    unsupported('x / numpy 0.0 with a numerator of unknown sign')
                raise ZeroDivisionError('A-scalar / 0')
            return P({m: v / c for m, v in self.t.items()})
        if not _isinstance(o, P):
            return NotImplemented
        if o.is_zero():
            raise ZeroDivisionError('A-scalar / 0')
        return self * o.inv()

    def __rtruediv__(self, o):
        o = P.lift(o)
        if o is None:
            return NotImplemented
        r = o * self.inv()
        return r

    def __pow__(self, n):
        if _isinstance(n, float) and n == int(n):
            n = int(n)
        if _isinstance(n, int):
            if n == 0:
                return 1
            if n < 0:
                return (self ** (-n)).inv() if _isinstance(self ** (-n), P) else Fraction(1) / (self ** (-n))
            r = self
            for _ in range(n - 1):
                r = r * self
            return r
        if n == 0.5:
            return sqrt(self)
        unsupported('A-scalar ** %r' % (n,))

    def sqrt(self):
        return sqrt(self)

    def conjugate(self):
        return self

    def __abs__(self):
        s = self.sign_known()
        if s is not None:
            return self if s >= 0 else -self
        if self >= 0:
            return self
        return -self

    def sign_known(self):
        """2: syntactically > 0, 1: >= 0, -1: <= 0, -2: < 0, 0: zero, None: unknown"""
        if not self.t:
            return 0
        T = tab()
        if T.nonneg and self.key() in T.nonneg:
            return 1
        pos = neg = True
        strict = False
        for m, c in self.t.items():
            mstrict = True
            for s, e in m:
                if T.pos[s]:
                    continue
                if T.kind[s] == 'root' or e % 2 == 0:
                    if e < 0:
                        return None
                    mstrict = False
                    continue
                return None
            strict = strict or mstrict
            if c > 0:
                neg = False
            else:
                pos = False
        if pos:
            return 2 if strict else 1
        if neg:
            return -2 if strict else -1
        return None

    # ---- z3
    def is_int_poly(self):
        T = tab()
        return all(c.denominator == 1 for c in self.t.values()) and all(T.kind[s] == 'dim' and e > 0 for m in self.t for s, e in m)

    def to_z3(self):
        T = tab()
        terms = []
        ip = self.is_int_poly()
        for m, c in sorted(self.t.items()):
            t = z3.IntVal(int(c)) if ip else z3.RealVal(c)
            for s, e in m:
                v = T.z3v[s]
                sq = T.z3sq[s]
                if sq is not None:
                    ae = abs(e)
                    fs = [sq] * (ae // 2)
                    if ae % 2:
                        fs.append(v)
                        if not T.odd[s]:
                            T.odd[s] = True
                            _link_square(s)
                else:
                    fs = [v] * abs(e)
                for f in fs:
                    t = t * f if e > 0 else t / f
            terms.append(t)
        if not terms:
            return z3.IntVal(0) if ip else z3.RealVal(0)
        r = terms[0]
        for t in terms[1:]:
            r = r + t
        return r

    # ---- integer-like behaviour of dimension polynomials (shape level)
    def _intdiv(self, o, want):
        o = P.lift(o)
        if o is None:
            return NotImplemented
        oc = o.const_value() if o.is_const() else None
        if oc is not None and oc == 0:
            raise ZeroDivisionError('integer division or modulo by zero')
        if oc is not None and oc == 1:
            return self if want == 'q' else 0
        q = poly_divide(self, o)
        if q is not None and (not _isinstance(q, P) or all(c.denominator == 1 for c in q.t.values())):
            return q if want == 'q' else 0
        # opaque quotient / remainder symbols tied by self == o*q + r, 0 <= r < o  (o > 0 assumed, as for sizes)
        T = tab()
        key = ('div', self.key(), o.key())
        if key not in T.rootmemo:
            qi = T.new('quo', 'dim', lo=None, hi=None)
            ri = T.new('rem', 'dim', lo=0, hi=None)
            T.rootmemo[key] = (qi, ri)
            ctx = cur()
            register_side(self.symbols() | o.symbols())
            oz, sz = o.to_z3(), self.to_z3()
            ctx.pc.append(z3.And(oz > 0, sz == oz * T.z3v[qi] + T.z3v[ri], T.z3v[ri] >= 0, T.z3v[ri] < oz))
            done = getattr(ctx, '_side_done', None)
            if done is not None:
                done.add(qi)
                done.add(ri)
        qi, ri = T.rootmemo[key]
        return P.sym(qi) if want == 'q' else P.sym(ri)

    def __floordiv__(self, o):
        return self._intdiv(o, 'q')

    def __rfloordiv__(self, o):
        return P.lift(o)._intdiv(self, 'q')

    def __mod__(self, o):
        return self._intdiv(o, 'r')

    def __rmod__(self, o):
        return P.lift(o)._intdiv(self, 'r')

    def concretize(self):
        """fork over the feasible integer values (solver-guided)"""
        if self.is_const():
            c = self.const_value()
            return int(c)
        ctx = cur()
        register_side(self.symbols())
        t = self.to_z3()
        for _ in range(256):
            st_, m = ctx.check([], 10000)
            ctx.stats.final_queries -= 1
            if st_ == 'sat':
                ctx.stats.final_sat -= 1
            elif st_ == 'unsat':
                ctx.stats.final_unsat -= 1
            else:
                ctx.stats.final_unknown -= 1
            if st_ != 'sat':
                unsupported('cannot concretise a symbolic dimension (%s)' % st_)
            val = m.eval(t, model_completion=True)
            val = val.as_long() if z3.is_int_value(val) else int(Fraction(val.numerator_as_long(), val.denominator_as_long()))
            if ctx.branch(t == val):
                return val
        unsupported('dimension concretisation exceeded 256 values')

    def __index__(self):
        return self.concretize()

    def __int__(self):
        return self.concretize()

    def cleared(self):
        """multiply by the positive monomial that clears negative exponents, then reduce"""
        T = tab()
        mins = {}
        for m in self.t:
            for s, e in m:
                if e < 0:
                    mins[s] = min(mins.get(s, 0), e)
        if not mins:
            return self
        for s in mins:
            if not T.pos[s]:
                unsupported('clearing a denominator whose sign is unknown')
        mul = tuple(sorted((s, -e) for s, e in mins.items()))
        r = self * P({mul: Fraction(1)})
        if _isinstance(r, P) and _has_neg(r):
            # rewriting rho^2 by a Laurent radicand can re-introduce negative powers (nested roots): repeat
            return r.cleared()
        return r

    def _cmp(self, o, op):
        o = P.lift(o)
        if o is None:
            return NotImplemented
        d = self - o
        if not _isinstance(d, P):
            d = P.const(d)
        d = simplify_roots(d)
        if not _isinstance(d, P):
            d = P.const(d)
        d = d.cleared()
        if not _isinstance(d, P):
            d = P.const(d)
        if d.is_const():
            c = d.const_value()
            return {'<': c < 0, '<=': c <= 0, '>': c > 0, '>=': c >= 0, '==': c == 0, '!=': c != 0}[op]
        sk = d.sign_known()
        if sk is not None and sk != 0:
            if sk >= 1 and op in ('>=', '<'):
                return op == '>='
            if sk <= -1 and op in ('<=', '>'):
                return op == '<='
            if abs(sk) == 2:
                return {'<': sk < 0, '<=': sk < 0, '>': sk > 0, '>=': sk > 0, '==': False, '!=': True}[op]
        t = d.to_z3()
        zero = z3.RealVal(0)
        e = {'<': t < zero, '<=': t <= zero, '>': t > zero, '>=': t >= zero, '==': t == zero, '!=': t != zero}[op]
        register_side(d.symbols())
        return SymBool(e)

    def __lt__(self, o):
        return self._cmp(o, '<')

    def __le__(self, o):
        return self._cmp(o, '<=')

    def __gt__(self, o):
        return self._cmp(o, '>')

    def __ge__(self, o):
        return self._cmp(o, '>=')

    def __eq__(self, o):
        if o is None:
            return False
        r = self._cmp(o, '==')
        return False if r is NotImplemented else r

    def __ne__(self, o):
        if o is None:
            return True
        r = self._cmp(o, '!=')
        return True if r is NotImplemented else r

    __hash__ = None

    def key(self):
        return tuple(sorted(self.t.items()))

    def __float__(self):
        if self.is_const():
            return float(self.const_value())
        if self.is_int_poly():
            return float(self.concretize())
        unsupported('float() of a symbolic A-scalar')

    def __repr__(self):
        if not self.t:
            return 'P(0)'
        T = tab() if active() else None
        parts = []
        for m, c in sorted(self.t.items())[:6]:
            ms = '*'.join('%s^%d' % (T.name[s] if T else s, e) if e != 1 else (T.name[s] if T else str(s)) for s, e in m)
            parts.append('%s%s' % (c, ('*' + ms) if ms else ''))
        return 'P(' + ' + '.join(parts) + (' ...' if len(self.t) > 6 else '') + ')'

    # derivative w.r.t. a base symbol (roots: chain rule through the radicand)
    def diff(self, s):
        T = tab()
        out = P({})
        for m, c in self.t.items():
            for i, (a, e) in enumerate(m):
                rest = tuple(x for j, x in enumerate(m) if j != i)
                if a == s:
                    mm = _mono_mul(rest, ((a, e - 1),)) if e != 1 else rest
                    out = out + P({mm: c * e})
                elif T.kind[a] == 'root' and s in _deps(a):
                    # d rho^e = e rho^(e-1) * (dP/ds) / (2 rho)
                    dr = T.rad[a].diff(s)
                    if _isinstance(dr, P) and dr.t:
                        mm = _mono_mul(rest, ((a, e - 2),)) if e != 2 else rest
                        out = out + (P({mm: c * e / 2}) * dr)
        return out


def _deps(root_id):
    T = tab()
    seen = set()
    stack = [root_id]
    while stack:
        r = stack.pop()
        rad = T.rad[r]
        if rad is None:
            continue
        for s in rad.symbols():
            if s not in seen:
                seen.add(s)
                if T.kind[s] == 'root':
                    stack.append(s)
    return seen


def register_side(symbols):
    """add the side constraints of the symbols (transitively through radicands) to the current path's side list, once"""
    ctx = cur()
    T = tab()
    done = getattr(ctx, '_side_done', None)
    if done is None or getattr(ctx, '_side_done_path', None) is not ctx.pc:
        done = set()
        ctx._side_done = done
        ctx._side_done_path = ctx.pc
    stack = list(symbols)
    while stack:
        s = stack.pop()
        if s in done:
            continue
        done.add(s)
        k = T.kind[s]
        v = T.z3v[s]
        if k == 'pos':
            if T.z3sq[s] is not None:
                ctx.pc.append(T.z3sq[s] > 0)
                if T.odd[s]:
                    ctx.pc.append(z3.And(v > 0, v * v == T.z3sq[s]))
                    T.linked.add(s)
            else:
                ctx.pc.append(v > 0)
        elif k == 'sign':
            ctx.pc.append(z3.Or(v == 1, v == -1))
        elif k == 'dim':
            lo, hi = T.bounds.get(s, (None, None))
            if lo is not None:
                ctx.pc.append(v >= lo)
            if hi is not None:
                ctx.pc.append(v <= hi)
        elif k == 'root':
            rad = T.rad[s]
            ctx.pc.append(z3.And(v > 0 if T.pos[s] else v >= 0, v * v == rad.to_z3()))
            stack.extend(rad.symbols())


def _link_square(s):
    """the symbol itself occurs (odd power): tie it to its square variable"""
    ctx = cur()
    T = tab()
    done = getattr(ctx, '_side_done', None)
    if done is not None and getattr(ctx, '_side_done_path', None) is ctx.pc and s in done and s not in T.linked:
        v = T.z3v[s]
        ctx.pc.append(z3.And(v > 0, v * v == T.z3sq[s]))
        T.linked.add(s)


def _has_neg(p):
    return any(e < 0 for m in p.t for _, e in m)


def sum_of_squares(values):
    """sum of v*v over the given A-scalars; the result is registered as non-negative (sound by construction)"""
    s = 0
    for v in values:
        if is_structural_zero(v):
            continue
        s = s + v * v
    if _isinstance(s, P):
        tab().nonneg.add(s.key())
    return s


def new_dim(name, lo=1, hi=None):
    return P.sym(tab().new(name, 'dim', lo=lo, hi=hi))


def new_pos(name):
    return P.sym(tab().new(name, 'pos'))


def new_real(name):
    return P.sym(tab().new(name, 'real'))


def new_free(name):
    return P.sym(tab().new(name, 'free'))


def new_sign(name):
    return P.sym(tab().new(name, 'sign'))


def _isqrt_frac(c):
    if c < 0:
        return None
    n, d = c.numerator, c.denominator
    rn, rd = math.isqrt(n), math.isqrt(d)
    if rn * rn == n and rd * rd == d:
        return Fraction(rn, rd)
    return None


def _order_key(m, syms):
    d = dict(m)
    return tuple(d.get(x, 0) for x in syms)


def poly_divide(N, D):
    """exact multivariate division N / D (D with non-negative exponents); returns the quotient P or None"""
    if not _isinstance(N, P) or not _isinstance(D, P) or not D.t:
        return None
    syms = sorted(N.symbols() | D.symbols())
    dl = max(D.t, key=lambda m: _order_key(m, syms))
    dc = D.t[dl]
    dld = dict(dl)
    rem = dict(N.t)
    quo = {}
    for _ in range(4000):
        if not rem:
            return P(quo) if quo else 0
        lt = max(rem, key=lambda m: _order_key(m, syms))
        ld = dict(lt)
        qm = {}
        ok = True
        for x in set(ld) | set(dld):
            e = ld.get(x, 0) - dld.get(x, 0)
            if dld.get(x, 0) > 0 and ld.get(x, 0) < dld.get(x, 0) and ld.get(x, 0) >= 0:
                ok = False
                break
            if e != 0:
                qm[x] = e
        if not ok:
            return None
        qmt = tuple(sorted(qm.items()))
        qc = rem[lt] / dc
        quo[qmt] = quo.get(qmt, 0) + qc
        for m, c in D.t.items():
            mm = _mono_mul(m, qmt)
            nc = rem.get(mm, 0) - qc * c
            if nc == 0:
                rem.pop(mm, None)
            else:
                rem[mm] = nc
        if len(rem) > 20000:
            return None
    return None


def simplify_roots(p):
    """cancel negative even powers of root symbols against their radicands where the numerator is divisible:
    N * rho^-2 -> N / rad(rho) when rad | N."""
    if not _isinstance(p, P):
        return p
    T = tab()
    for _ in range(12):
        negs = set()
        for m in p.t:
            for s_, e in m:
                if e <= -2 and T.kind[s_] == 'root':
                    negs.add(s_)
        progressed = False
        for s_ in sorted(negs):
            # group the terms carrying rho^e with e <= -2, by exponent
            groups = {}
            rest = {}
            for m, c in p.t.items():
                e = dict(m).get(s_, 0)
                if e <= -2:
                    base = tuple(x for x in m if x[0] != s_)
                    groups.setdefault(e, {})[base] = c
                else:
                    rest[m] = c
            newp = P(dict(rest)) if rest else 0
            changed = False
            for e, terms in groups.items():
                q = poly_divide(P(terms), T.rad[s_]) if not _has_neg(T.rad[s_]) else None
                if q is None:
                    part = P({_mono_mul(m, ((s_, e),)): c for m, c in terms.items()})
                else:
                    changed = True
                    if _isinstance(q, P):
                        part = P({(_mono_mul(m, ((s_, e + 2),)) if e + 2 != 0 else m): c for m, c in q.t.items()})
                    else:
                        part = 0
                newp = newp + part
            if changed:
                progressed = True
                p = newp
                if not _isinstance(p, P):
                    return p
        if not progressed:
            break
    return p


def _proportional_root(p):
    """if p == k * m^2 * rad(rho_j) for an existing root (k a rational square, m a monomial), return sqrt(k)*m*rho_j"""
    T = tab()
    for key, j in T.rootmemo.items():
        rad = T.rad[j]
        if _has_neg(rad) or len(rad.t) != len(p.t):
            continue
        q = poly_divide(p, rad)
        if _isinstance(q, P) and q.is_monomial():
            (m, c), = q.t.items()
            rc = _isqrt_frac(c)
            if rc is not None and all(e % 2 == 0 and (T.pos[x] or T.kind[x] == 'root') for x, e in m):
                return P({tuple((x, e // 2) for x, e in m): rc}) * P.sym(j)
    return None


def sqrt(p, assume_pos=False):
    c = _num(p)
    if c is not None:
        r = _isqrt_frac(c)
        if r is not None:
            return r
        if c < 0:
            unsupported('sqrt of a negative constant')
        p = P.const(c)
    if not _isinstance(p, P):
        unsupported('sqrt of %s' % type(p).__name__)
    if p.is_zero():
        return 0
    p = simplify_roots(p)
    c = _num(p)
    if c is not None:
        return sqrt(c)
    T = tab()
    if _has_neg(p) and not p.is_monomial():
        # sqrt(N / M^2) = sqrt(N) / M for a positive monomial M: keep radicands polynomial
        mins = {}
        for m in p.t:
            for s_, e in m:
                if e < 0:
                    mins[s_] = min(mins.get(s_, 0), e)
        if all(T.pos[s_] for s_ in mins):
            M = P({tuple(sorted((s_, (-e + 1) // 2) for s_, e in mins.items())): Fraction(1)})
            num = p * M * M
            if _isinstance(num, P) and not _has_neg(num):
                return sqrt(num, assume_pos) / M
    if p.is_monomial():
        (m, c), = p.t.items()
        rc = _isqrt_frac(c)
        if rc is not None and all(e % 2 == 0 and (T.pos[s] or T.kind[s] == 'root') for s, e in m):
            return P({tuple((s, e // 2) for s, e in m): rc})
    k = p.key()
    if k in T.rootmemo:
        return P.sym(T.rootmemo[k])
    pr = _proportional_root(p)
    if pr is not None:
        return pr
    sk = p.sign_known()
    if sk is not None and sk < 0:
        unsupported('sqrt of a negative quantity')
    positive = sk == 2
    if not positive and assume_pos:
        # documented non-degeneracy assumption (e.g. full column rank of a QR input): restrict the path, do not fork
        c = p > 0
        if _isinstance(c, SymBool):
            cur().assume(c)
        elif not c:
            from .explorer import PathAbort
            cur().aborted = 'assume-false'
            raise PathAbort('degenerate input')
        positive = True
    if not positive:
        # unknown sign / possibly zero: decide with the solver (fork)
        if p <= 0:
            if p < 0:
                unsupported('sqrt of a negative quantity')
            return 0
        positive = True
    i = T.new('rho', 'root', rad=p, pos=positive)
    T.rootmemo[k] = i
    return P.sym(i)


import numbers as _numbers
_numbers.Number.register(P)


def is_A(v):
    return _isinstance(v, P)


def is_structural_zero(v):
    if _isinstance(v, P):
        return v.is_zero()
    c = _num(v)
    return c is not None and c == 0


def eval_float(p, env=None):
    """numeric value of an A-scalar whose base symbols are all constants (roots evaluated recursively)"""
    if not _isinstance(p, P):
        return float(p)
    T = tab()
    memo = {} if env is None else env

    def val(s):
        if s in memo:
            return memo[s]
        if T.kind[s] == 'root':
            r = math.sqrt(max(0.0, eval_float(T.rad[s], memo)))
        elif T.kind[s] == 'sign':
            r = 1.0
        elif s in T.defn:
            r = eval_float(T.defn[s], memo)
        else:
            raise ValueError('free symbol in exact evaluation')
        memo[s] = r
        return r
    tot = 0.0
    for m, c in p.t.items():
        t = float(c)
        for s, e in m:
            t *= val(s) ** e
        tot += t
    return tot


def model_value(p, model):
    """rational value of an input symbol (or constant) under a z3 model; symbols represented only through their
    square variable get sqrt(value of the square) (exact if a rational square, else the nearest double)"""
    if p.is_const():
        return p.const_value()
    T = tab()
    if p.is_monomial():
        (m, c), = p.t.items()
        if len(m) == 1 and m[0][1] == 1 and c == 1:
            s = m[0][0]
            if T.z3sq[s] is not None and s not in T.linked:
                v = model.eval(T.z3sq[s], model_completion=True)
                if z3.is_algebraic_value(v):
                    v = v.approx(30)
                f = Fraction(v.numerator_as_long(), v.denominator_as_long())
                if f <= 0:
                    f = Fraction(1)
                r = _isqrt_frac(f)
                return r if r is not None else Fraction(math.sqrt(f))
            v = model.eval(T.z3v[s], model_completion=True)
            if z3.is_algebraic_value(v):
                v = v.approx(30)
            return Fraction(v.numerator_as_long(), v.denominator_as_long())
    syms = p.symbols()
    if syms and all(T.rad[s_] is None for s_ in syms) and all(e > 0 for m_ in p.t for _, e in m_):
        # polynomial in input symbols (e.g. a fixed phase times a positive modulus): evaluate symbol by symbol, so that symbols
        # that enter the query only through their square variable get their reconstructed value
        vals = {s_: model_value(P.sym(s_), model) for s_ in syms}
        tot = Fraction(0)
        for m_, c_ in p.t.items():
            term = Fraction(c_)
            for s_, e in m_:
                term *= vals[s_] ** e
            tot += term
        return tot
    v = model.eval(p.to_z3(), model_completion=True)
    if z3.is_algebraic_value(v):
        v = v.approx(30)
    return Fraction(v.numerator_as_long(), v.denominator_as_long())
