"""Deterministic seeded test values shared by the exact (Fraction) environment under python3-vt
and the real-torch environment under /venv/bin/python.  stdlib only."""
import hashlib
from fractions import Fraction


def seeded_fraction(seed, name, k):
    """small dyadic rational in [-2, 2], never 0, reproducible across interpreters."""
    h = hashlib.sha256(('%s|%s|%s' % (seed, name, k)).encode()).digest()
    n = int.from_bytes(h[:2], 'big') % 33 - 16     # -16..16
    if n == 0:
        n = 5
    return Fraction(n, 8)


def seeded_int(seed, name, k, lo, hi):
    h = hashlib.sha256(('%s|%s|%s|int' % (seed, name, k)).encode()).digest()
    return lo + int.from_bytes(h[:4], 'big') % (hi - lo + 1)


# fixed rational unit phases for complex entries of known modulus (|c + i s| == 1 exactly)
PHASES = [(Fraction(1), Fraction(0)), (Fraction(3, 5), Fraction(4, 5)), (Fraction(-4, 5), Fraction(3, 5)), (Fraction(0), Fraction(1)),
          (Fraction(5, 13), Fraction(-12, 13)), (Fraction(-1), Fraction(0)), (Fraction(-3, 5), Fraction(-4, 5)), (Fraction(12, 13), Fraction(5, 13))]
