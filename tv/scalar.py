"""Symbolic scalars that live inside numpy object arrays.

Z  : real scalar = z3 Real term (raw, un-normalised: z3 decides identities).
C  : complex scalar = pair (re, im) of Z / python numbers.
SymInt : integer scalar = z3 Int term (shape level, indices).

None of them subclasses int/float (CPython would read raw digits of a subclass
without calling __index__); ``sym_isinstance`` is injected into the loaded
torchtt modules instead.
"""
import numbers
from fractions import Fraction
import z3
from .explorer import SymBool, cur, active, unsupported

_builtin_isinstance = isinstance


def _const(v):
    """python number -> z3 RealVal (exact)."""
    if _builtin_isinstance(v, bool):
        return z3.RealVal(int(v))
    if _builtin_isinstance(v, int):
        return z3.RealVal(v)
    if _builtin_isinstance(v, Fraction):
        return z3.RealVal(v)
    if _builtin_isinstance(v, float):
        return z3.RealVal(Fraction(v))
    import numpy as _np
    if _builtin_isinstance(v, _np.integer):
        return z3.RealVal(int(v))
    if _builtin_isinstance(v, _np.floating):
        return z3.RealVal(Fraction(float(v)))
    raise TypeError('cannot lift %r' % (v,))


def _is_num(v):
    import numpy as _np
    return _builtin_isinstance(v, (int, float, Fraction, _np.integer, _np.floating)) and not _builtin_isinstance(v, complex)


class Z:
    """Real symbolic scalar. kind: 'float' | 'int' | 'npfloat' | 'npint' (only affects isinstance emulation)."""
    __slots__ = ('t', 'kind')
    __array_ufunc__ = None

    def __init__(self, t, kind='float'):
        self.t = t
        self.kind = kind

    # -- helpers
    @staticmethod
    def lift(v):
        if _builtin_isinstance(v, Z):
            return v
        if _builtin_isinstance(v, SymInt):
            return Z(z3.ToReal(v.t))
        return Z(_const(v))

    def _bin(self, o, f):
        if _builtin_isinstance(o, C):
            return NotImplemented
        if _builtin_isinstance(o, Z):
            return Z(f(self.t, o.t))
        if _builtin_isinstance(o, SymInt):
            return Z(f(self.t, z3.ToReal(o.t)))
        if _is_num(o):
            return Z(f(self.t, _const(o)))
        if _builtin_isinstance(o, complex):
            return NotImplemented
        return NotImplemented

    def __add__(self, o):
        if _builtin_isinstance(o, complex):
            return C(self, 0) + C.lift(o)
        if _is_num(o) and o == 0:
            return self
        return self._bin(o, lambda a, b: a + b)

    def __radd__(self, o):
        if _is_num(o) and o == 0:
            return self
        if _builtin_isinstance(o, complex):
            return C(o.real, o.imag) + self
        return Z(_const(o) + self.t)

    def __sub__(self, o):
        if _builtin_isinstance(o, complex):
            return C(self, 0) - C.lift(o)
        if _is_num(o) and o == 0:
            return self
        return self._bin(o, lambda a, b: a - b)

    def __rsub__(self, o):
        if _builtin_isinstance(o, complex):
            return C(o.real, o.imag) - self
        if _is_num(o) and o == 0:
            return Z(-self.t)
        return Z(_const(o) - self.t)

    def __mul__(self, o):
        if _builtin_isinstance(o, complex):
            return C(self, 0) * C.lift(o)
        if _is_num(o):
            if o == 0:
                return 0
            if o == 1:
                return self
        return self._bin(o, lambda a, b: a * b)

    def __rmul__(self, o):
        if _builtin_isinstance(o, complex):
            return C(o.real, o.imag) * self
        if _is_num(o):
            if o == 0:
                return 0
            if o == 1:
                return self
        return Z(_const(o) * self.t)

    def __truediv__(self, o):
        if _builtin_isinstance(o, complex):
            return C(self, 0) / C.lift(o)
        if _is_num(o) and o == 1:
            return self
        return self._bin(o, lambda a, b: a / b)

    def __rtruediv__(self, o):
        if _builtin_isinstance(o, complex):
            return C(o.real, o.imag) / self
        if _is_num(o) and o == 0:
            return 0
        return Z(_const(o) / self.t)

    def __neg__(self):
        return Z(-self.t)

    def __pos__(self):
        return self

    def __abs__(self):
        return Z(z3.If(self.t >= 0, self.t, -self.t))

    def conjugate(self):
        return self

    def __pow__(self, n):
        if _builtin_isinstance(n, float) and n == int(n):
            n = int(n)
        if _builtin_isinstance(n, int):
            if n == 0:
                return 1
            if n < 0:
                return 1 / (self ** (-n))
            r = self
            for _ in range(n - 1):
                r = r * self
            return r
        if n == 0.5:
            return zsqrt(self)
        unsupported('Z ** %r' % (n,))

    def sqrt(self):
        return zsqrt(self)

    # -- comparisons
    def _cmp(self, o, f):
        if _builtin_isinstance(o, Z):
            return SymBool(f(self.t, o.t))
        if _builtin_isinstance(o, SymInt):
            return SymBool(f(self.t, z3.ToReal(o.t)))
        if _is_num(o):
            return SymBool(f(self.t, _const(o)))
        if _builtin_isinstance(o, complex):
            return C(self, 0)._cmpc(o, f)
        return NotImplemented

    def __lt__(self, o):
        return self._cmp(o, lambda a, b: a < b)

    def __le__(self, o):
        return self._cmp(o, lambda a, b: a <= b)

    def __gt__(self, o):
        return self._cmp(o, lambda a, b: a > b)

    def __ge__(self, o):
        return self._cmp(o, lambda a, b: a >= b)

    def __eq__(self, o):
        if o is None:
            return False
        r = self._cmp(o, lambda a, b: a == b)
        return False if r is NotImplemented else r

    def __ne__(self, o):
        if o is None:
            return True
        r = self._cmp(o, lambda a, b: a != b)
        return True if r is NotImplemented else r

    __hash__ = None

    def __float__(self):
        unsupported('float() of a symbolic real')

    def __repr__(self):
        return 'Z(%s)' % (self.t,)


def zsqrt(x):
    """sqrt through a fresh non-negative symbol r with r*r == x (x<0 is cut from the path)."""
    if _is_num(x):
        if x == 0 or x == 1:
            return x
        x = Z.lift(x)
    ctx = cur()
    if getattr(ctx, 'exact', False):
        xs = z3.simplify(x.t)
        if z3.is_rational_value(xs):
            import math
            fx = Fraction(xs.numerator_as_long(), xs.denominator_as_long())
            if fx < 0:
                unsupported('sqrt of a negative constant')
            return Z(z3.RealVal(Fraction(math.sqrt(fx))))
    r = z3.Real(ctx.fresh_name('sqrt'))
    ctx.pc.append(z3.And(r >= 0, r * r == x.t))
    return Z(r)


class C:
    """Complex scalar (re, im); parts are Z or python numbers."""
    __slots__ = ('re', 'im')
    __array_ufunc__ = None

    def __init__(self, re, im):
        self.re = re
        self.im = im

    @staticmethod
    def lift(v):
        if _builtin_isinstance(v, C):
            return v
        if _builtin_isinstance(v, complex):
            return C(v.real, v.imag)
        return C(v, 0)

    @staticmethod
    def _ok(o):
        return _builtin_isinstance(o, (C, Z, SymInt, complex)) or _is_num(o) or hasattr(o, 'to_z3')

    def __add__(self, o):
        if not C._ok(o):
            return NotImplemented
        o = C.lift(o)
        return C(self.re + o.re, self.im + o.im)

    __radd__ = __add__

    def __sub__(self, o):
        if not C._ok(o):
            return NotImplemented
        o = C.lift(o)
        return C(self.re - o.re, self.im - o.im)

    def __rsub__(self, o):
        if not C._ok(o):
            return NotImplemented
        o = C.lift(o)
        return C(o.re - self.re, o.im - self.im)

    def __mul__(self, o):
        if not C._ok(o):
            return NotImplemented
        if _is_num(o):
            if o == 0:
                return 0
            if o == 1:
                return self
        if not _builtin_isinstance(o, (C, complex)):
            return C(self.re * o, self.im * o)
        o = C.lift(o)
        return C(self.re * o.re - self.im * o.im, self.re * o.im + self.im * o.re)

    __rmul__ = __mul__

    def __truediv__(self, o):
        if not C._ok(o):
            return NotImplemented
        if not _builtin_isinstance(o, (C, complex)):
            return C(self.re / o, self.im / o)
        o = C.lift(o)
        den = o.re * o.re + o.im * o.im
        return C((self.re * o.re + self.im * o.im) / den, (self.im * o.re - self.re * o.im) / den)

    def __rtruediv__(self, o):
        if not C._ok(o):
            return NotImplemented
        return C.lift(o) / self

    def __neg__(self):
        return C(-self.re, -self.im)

    def __pos__(self):
        return self

    def conjugate(self):
        return C(self.re, -self.im)

    def __abs__(self):
        n2 = self.re * self.re + self.im * self.im
        from . import apoly
        if _builtin_isinstance(self.re, apoly.P) or _builtin_isinstance(self.im, apoly.P):
            return apoly.sqrt(n2) if _builtin_isinstance(n2, apoly.P) else n2 ** 0.5
        return zsqrt(Z.lift(n2))

    def __pow__(self, n):
        if _builtin_isinstance(n, int) and n >= 1:
            r = self
            for _ in range(n - 1):
                r = r * self
            return r
        if n == 0:
            return 1
        unsupported('C ** %r' % (n,))

    def _cmpc(self, o, f):
        o = C.lift(o)
        from . import apoly
        if any(_builtin_isinstance(v, apoly.P) for v in (self.re, self.im, o.re, o.im)):
            # A-scalar parts: only (dis)equality is ever asked; P's own comparison returns bool or SymBool
            a = (self.re == o.re)
            b = (self.im == o.im)
            if a is False or b is False:
                return SymBool(z3.BoolVal(False))
            ta = z3.BoolVal(True) if a is True else a.t
            tb = z3.BoolVal(True) if b is True else b.t
            return SymBool(z3.And(ta, tb))
        a = Z.lift(self.re)
        b = Z.lift(self.im)
        return SymBool(z3.And(f(a.t, Z.lift(o.re).t), f(b.t, Z.lift(o.im).t)))

    def __eq__(self, o):
        if o is None:
            return False
        return self._cmpc(o, lambda a, b: a == b)

    def __ne__(self, o):
        if o is None:
            return True
        return SymBool(z3.Not(self._cmpc(o, lambda a, b: a == b).t))

    # ordering: numpy orders complex numbers lexicographically (real part first); python's complex raises TypeError, which the
    # code under test can only reach with python scalars (then the replay on the real code does not reproduce)
    @staticmethod
    def _bt(v):
        return z3.BoolVal(bool(v)) if not _builtin_isinstance(v, SymBool) else v.t

    def _lex(self, o, strict_last, less):
        if not C._ok(o):
            return NotImplemented
        o = C.lift(o)
        a, b = (self, o) if less else (o, self)
        first = a.re < b.re
        same = a.re == b.re
        last = (a.im < b.im) if strict_last else (a.im <= b.im)
        return SymBool(z3.simplify(z3.Or(C._bt(first), z3.And(C._bt(same), C._bt(last)))))

    def __lt__(self, o):
        return self._lex(o, True, True)

    def __le__(self, o):
        return self._lex(o, False, True)

    def __gt__(self, o):
        return self._lex(o, True, False)

    def __ge__(self, o):
        return self._lex(o, False, False)

    def sqrt(self):
        """principal square root: p + iq with p^2 - q^2 = re, 2pq = im, p >= 0 (q >= 0 when p == 0)"""
        from . import apoly
        im0 = self.im == 0
        if im0 is True or (_builtin_isinstance(im0, SymBool) and bool(im0)):
            nonneg = self.re >= 0
            if nonneg is True or (_builtin_isinstance(nonneg, SymBool) and bool(nonneg)):
                return C(_real_sqrt(self.re), 0)
            return C(0, _real_sqrt(-self.re))
        usesP = any(_builtin_isinstance(v, apoly.P) for v in (self.re, self.im))
        if usesP and all(not _builtin_isinstance(v, apoly.P) or v.is_const() for v in (self.re, self.im)):
            import cmath
            w = cmath.sqrt(complex(float(self.re), float(self.im)))
            return C(apoly.P.const(Fraction(w.real).limit_denominator(10**15)), apoly.P.const(Fraction(w.imag).limit_denominator(10**15)))
        if usesP:
            pr, qi = apoly.new_real('csqrt.re'), apoly.new_real('csqrt.im')
            for lhs, rhs in ((pr * pr - qi * qi, self.re), (2 * pr * qi, self.im)):
                dd = lhs - rhs
                dd = dd.cleared() if _builtin_isinstance(dd, apoly.P) else dd
                if _builtin_isinstance(dd, apoly.P):
                    apoly.register_side(dd.symbols())
                    cur().pc.append(dd.to_z3() == 0)
            cur().assume(pr >= 0)
            return C(pr, qi)
        pr, qi = real('csqrt.re'), real('csqrt.im')
        cur().assume(SymBool(z3.And(pr.t * pr.t - qi.t * qi.t == Z.lift(self.re).t, 2 * pr.t * qi.t == Z.lift(self.im).t, pr.t >= 0)))
        return C(pr, qi)

    __hash__ = None

    def __repr__(self):
        return 'C(%r,%r)' % (self.re, self.im)


def re_part(v):
    if _builtin_isinstance(v, C):
        return v.re
    if _builtin_isinstance(v, complex):
        return v.real
    return v


def im_part(v):
    if _builtin_isinstance(v, C):
        return v.im
    if _builtin_isinstance(v, complex):
        return v.imag
    return 0


def _real_sqrt(v):
    from . import apoly
    if _builtin_isinstance(v, apoly.P):
        return apoly.sqrt(v)
    if _builtin_isinstance(v, Z):
        return zsqrt(v)
    return float(v) ** 0.5


class SymInt:
    """Symbolic integer (z3 Int term)."""
    __slots__ = ('t',)
    __array_ufunc__ = None

    def __init__(self, t):
        self.t = t

    @staticmethod
    def lift(v):
        if _builtin_isinstance(v, SymInt):
            return v
        if _builtin_isinstance(v, bool):
            return SymInt(z3.IntVal(int(v)))
        return SymInt(z3.IntVal(int(v)))

    def _bin(self, o, f):
        if _builtin_isinstance(o, SymInt):
            return SymInt(f(self.t, o.t))
        if _builtin_isinstance(o, bool):
            o = int(o)
        import numpy as _np
        if _builtin_isinstance(o, (int, _np.integer)):
            return SymInt(f(self.t, z3.IntVal(int(o))))
        if _builtin_isinstance(o, float):
            return Z(f(z3.ToReal(self.t), _const(o)))
        return NotImplemented

    def _rbin(self, o, f):
        import numpy as _np
        if _builtin_isinstance(o, (int, _np.integer)):
            return SymInt(f(z3.IntVal(int(o)), self.t))
        if _builtin_isinstance(o, float):
            return Z(f(_const(o), z3.ToReal(self.t)))
        return NotImplemented

    def __add__(self, o):
        if _builtin_isinstance(o, int) and o == 0:
            return self
        return self._bin(o, lambda a, b: a + b)

    def __radd__(self, o):
        if _builtin_isinstance(o, int) and o == 0:
            return self
        return self._rbin(o, lambda a, b: a + b)

    def __sub__(self, o):
        if _builtin_isinstance(o, int) and o == 0:
            return self
        return self._bin(o, lambda a, b: a - b)

    def __rsub__(self, o):
        return self._rbin(o, lambda a, b: a - b)

    def __mul__(self, o):
        if _builtin_isinstance(o, int) and not _builtin_isinstance(o, bool):
            if o == 1:
                return self
            if o == 0:
                return 0
        return self._bin(o, lambda a, b: a * b)

    def __rmul__(self, o):
        if _builtin_isinstance(o, int) and not _builtin_isinstance(o, bool):
            if o == 1:
                return self
            if o == 0:
                return 0
        return self._rbin(o, lambda a, b: a * b)

    def __neg__(self):
        return SymInt(-self.t)

    def __pos__(self):
        return self

    def __abs__(self):
        return SymInt(z3.If(self.t >= 0, self.t, -self.t))

    # python floor division / modulo (z3 div/mod are euclidean: agree with python for positive divisors)
    def __floordiv__(self, o):
        o = SymInt.lift(o)
        cur().assume(o.t > 0) if active() else None
        return SymInt(self.t / o.t)

    def __rfloordiv__(self, o):
        cur().assume(self.t > 0) if active() else None
        return SymInt(SymInt.lift(o).t / self.t)

    def __mod__(self, o):
        o = SymInt.lift(o)
        cur().assume(o.t > 0) if active() else None
        return SymInt(self.t % o.t)

    def __rmod__(self, o):
        cur().assume(self.t > 0) if active() else None
        return SymInt(SymInt.lift(o).t % self.t)

    def __truediv__(self, o):
        return Z(z3.ToReal(self.t)) / (Z(z3.ToReal(o.t)) if _builtin_isinstance(o, SymInt) else o)

    def __rtruediv__(self, o):
        return o / Z(z3.ToReal(self.t))

    def _cmp(self, o, f):
        if _builtin_isinstance(o, SymInt):
            return SymBool(f(self.t, o.t))
        import numpy as _np
        if _builtin_isinstance(o, (int, _np.integer)):
            return SymBool(f(self.t, z3.IntVal(int(o))))
        if _builtin_isinstance(o, float):
            return SymBool(f(z3.ToReal(self.t), _const(o)))
        if _builtin_isinstance(o, Z):
            return SymBool(f(z3.ToReal(self.t), o.t))
        return NotImplemented

    def __lt__(self, o):
        return self._cmp(o, lambda a, b: a < b)

    def __le__(self, o):
        return self._cmp(o, lambda a, b: a <= b)

    def __gt__(self, o):
        return self._cmp(o, lambda a, b: a > b)

    def __ge__(self, o):
        return self._cmp(o, lambda a, b: a >= b)

    def __eq__(self, o):
        if o is None:
            return False
        r = self._cmp(o, lambda a, b: a == b)
        return False if r is NotImplemented else r

    def __ne__(self, o):
        if o is None:
            return True
        r = self._cmp(o, lambda a, b: a != b)
        return True if r is NotImplemented else r

    __hash__ = None

    def concretize(self, lo=None, hi=None):
        """Fork over the feasible values (explicit concretisation): ask the solver for a value, branch on it."""
        t = z3.simplify(self.t)
        if z3.is_int_value(t):
            return t.as_long()
        ctx = cur()
        for _ in range(256):
            if ctx.pos < len(ctx.prefix):
                # replaying a recorded decision: recover the value tried at this point deterministically
                pass
            st_, m = ctx.check([], 10000) if True else (None, None)
            ctx.stats.final_queries -= 1
            if st_ == 'sat':
                ctx.stats.final_sat -= 1
            elif st_ == 'unsat':
                ctx.stats.final_unsat -= 1
            else:
                ctx.stats.final_unknown -= 1
            if st_ != 'sat':
                unsupported('cannot concretise a symbolic integer (%s)' % st_)
            val = m.eval(self.t, model_completion=True).as_long()
            if ctx.branch(self.t == val):
                return val
        unsupported('SymInt concretisation exceeded 256 values')

    def __index__(self):
        return self.concretize()

    def __int__(self):
        return self.concretize()

    def __repr__(self):
        return 'SymInt(%s)' % (self.t,)


numbers.Number.register(Z)
numbers.Number.register(C)
numbers.Number.register(SymInt)


class Havoc:
    """A floating-point value about which nothing is assumed (index-level analyses: the numerical data is abstracted away).
    Arithmetic returns HAVOC again; every comparison is an independent nondeterministic choice (a fresh boolean decided by
    the explorer on both sides), which over-approximates every concrete outcome."""
    __slots__ = ()
    __array_ufunc__ = None
    __hash__ = None

    def _a(self, o=None):
        return HAVOC

    __add__ = __radd__ = __sub__ = __rsub__ = __mul__ = __rmul__ = __truediv__ = __rtruediv__ = __pow__ = __rpow__ = _a
    __neg__ = __pos__ = __abs__ = _a

    def conjugate(self):
        return HAVOC

    def sqrt(self):
        return HAVOC

    def _c(self, o=None):
        n = cur().fresh_name('hv') if active() else 'hv'
        return SymBool(z3.Bool(n))

    __lt__ = __le__ = __gt__ = __ge__ = __eq__ = __ne__ = _c

    def __bool__(self):
        return bool(self._c())

    def __float__(self):
        unsupported('float() of a havoc value')

    def __repr__(self):
        return 'HAVOC'


HAVOC = Havoc()


def _is_havoc_like(v):
    if _builtin_isinstance(v, Havoc):
        return True
    if type(v).__name__ != 'Tensor' or not type(v).__module__.endswith('symtorch'):
        return False
    a = v.a
    return a.size == 1 and _builtin_isinstance(a.reshape(-1)[0], Havoc)


def _sym_extreme(f, a, k):
    """max/min replacement injected into the loaded modules: a havoc operand makes the result havoc without a case split"""
    if len(a) == 1:
        try:
            lst = list(a[0])
        except TypeError:
            return f(*a, **k)
        if any(_is_havoc_like(v) for v in lst):
            return HAVOC
        return f(lst, **k)
    if any(_is_havoc_like(v) for v in a):
        return HAVOC
    return f(*a, **k)


def sym_max(*a, **k):
    return _sym_extreme(max, a, k)


def sym_min(*a, **k):
    return _sym_extreme(min, a, k)


def sym_isinstance(obj, cls):
    """isinstance replacement injected into the loaded torchtt modules."""
    if _builtin_isinstance(obj, Havoc):
        targets = cls if _builtin_isinstance(cls, tuple) else (cls,)
        return float in targets or numbers.Number in targets
    if _builtin_isinstance(obj, Z):
        targets = cls if _builtin_isinstance(cls, tuple) else (cls,)
        import numpy as _np
        for c in targets:
            if c is float and obj.kind in ('float', 'npfloat'):
                return True
            if c is int and obj.kind == 'int':
                return True
            if c is numbers.Number:
                return True
            if c in (_np.number, _np.generic) and obj.kind in ('npfloat', 'npfloat32', 'npint'):
                return True
            if c is _np.floating and obj.kind in ('npfloat', 'npfloat32'):
                return True
            if c is _np.integer and obj.kind == 'npint':
                return True
        return _builtin_isinstance(obj, cls)
    if _builtin_isinstance(obj, C):
        targets = cls if _builtin_isinstance(cls, tuple) else (cls,)
        if complex in targets:
            return True
        return _builtin_isinstance(obj, cls)
    if _builtin_isinstance(obj, SymInt):
        targets = cls if _builtin_isinstance(cls, tuple) else (cls,)
        if int in targets:
            return True
        return _builtin_isinstance(obj, cls)
    if type(obj).__name__ == 'P' and type(obj).__module__.endswith('apoly'):
        targets = cls if _builtin_isinstance(cls, tuple) else (cls,)
        intlike = obj.is_int_poly()
        if (int in targets and intlike) or (float in targets and not intlike) or numbers.Number in targets:
            return True
        return _builtin_isinstance(obj, cls)
    return _builtin_isinstance(obj, cls)


def real(name, kind='float'):
    """fresh real symbol (deterministic name per path when exploring)."""
    if active():
        name = cur().fresh_name(name)
    return Z(z3.Real(name), kind)


def integer(name, lo=None, hi=None):
    if active():
        name = cur().fresh_name(name)
    v = SymInt(z3.Int(name))
    if active():
        if lo is not None:
            cur().pc.append(v.t >= lo)
        if hi is not None:
            cur().pc.append(v.t <= hi)
    return v


def to_z3_real(v):
    if _builtin_isinstance(v, Z):
        return v.t
    if _builtin_isinstance(v, SymInt):
        return z3.ToReal(v.t)
    if _builtin_isinstance(v, C):
        raise TypeError('complex where real expected')
    if hasattr(v, 'to_z3'):
        from . import apoly
        apoly.register_side(v.symbols())
        return v.cleared().to_z3() if not v.is_const() else _const(v.const_value())
    return _const(v)
