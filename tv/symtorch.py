"""symtorch: a value-level model of the part of the torch API that torchtt uses.

Tensors wrap numpy *object* arrays whose entries are python numbers or the
symbolic scalars of tv.scalar / tv.apoly.  Views are numpy views, so aliasing
and in-place writes propagate as in torch.  Anything not modelled raises
explorer.Unsupported (path inconclusive; never a pass, never a violation).
"""
import sys
import builtins as _builtins
import types
import itertools
import numbers
from fractions import Fraction
import numpy as _np

from .explorer import SymBool, cur, active, unsupported, Unsupported
from . import scalar as _sc
from .scalar import Z, C, SymInt

_isinstance = isinstance


# --------------------------------------------------------------------------- dtypes
class dtype:
    def __init__(self, name, cat, bits, cplx=None):
        self.name = name
        self.cat = cat      # 0 bool, 1 int, 2 float, 3 complex
        self.bits = bits
        self.is_complex = cat == 3
        self.is_floating_point = cat == 2

    def __repr__(self):
        return 'torch.' + self.name


bool_ = dtype('bool', 0, 8)
int32 = dtype('int32', 1, 32)
int64 = dtype('int64', 1, 64)
float32 = dtype('float32', 2, 32)
float64 = dtype('float64', 2, 64)
complex64 = dtype('complex64', 3, 64)
complex128 = dtype('complex128', 3, 128)
double = float64
float = float32  # noqa: A001  (torch.float)
long = int64
cfloat = complex64
cdouble = complex128
bool = bool_  # noqa: A001
_py_float = _builtins.float
_py_bool = _builtins.bool
_py_int = int
_py_complex = complex
_py_sum = sum
_py_abs = abs
_b_sorted = sorted
_py_min = min
_py_max = max
_py_all = all
_py_any = any

_default_dtype = float32


def promote_types(a, b):
    if a is b:
        return a
    if a.cat != b.cat:
        hi, lo = (a, b) if a.cat > b.cat else (b, a)
        if hi.cat == 3 and lo.cat == 2 and lo.bits == 64 and hi.bits == 64:
            return complex128
        return hi
    return a if a.bits >= b.bits else b


def _scalar_cat(v):
    if _isinstance(v, (_py_bool, _np.bool_)):
        return 0
    if _isinstance(v, (C, _py_complex, _np.complexfloating)):
        return 3
    if _isinstance(v, SymInt) or _isinstance(v, (int, _np.integer)):
        return 1
    if _isinstance(v, Z):
        return 1 if v.kind in ('int', 'npint') else 2
    return 2


def _result_dtype(x, y):
    """torch type promotion for a binary elementwise op; x, y tensors or scalars."""
    tx, ty = _isinstance(x, Tensor), _isinstance(y, Tensor)
    if tx and ty:
        if x.a.ndim == 0 and y.a.ndim > 0:
            return _dim_vs_zero(y.dtype, x.dtype)
        if y.a.ndim == 0 and x.a.ndim > 0:
            return _dim_vs_zero(x.dtype, y.dtype)
        return promote_types(x.dtype, y.dtype)
    t, s = (x, y) if tx else (y, x)
    sc = _scalar_cat(s)
    if sc <= t.dtype.cat:
        return t.dtype
    if sc == 2:
        return _default_dtype
    if sc == 3:
        if t.dtype.cat == 2:
            return complex128 if t.dtype.bits == 64 else complex64
        return complex64
    if sc == 1:
        return int64
    return t.dtype


def _dim_vs_zero(d, z):
    if z.cat <= d.cat:
        return d
    if z.cat == 3 and d.cat == 2:
        return complex128 if d.bits == 64 else complex64
    if z.cat == 2:
        return z
    return z


def _can_cast(frm, to):
    return frm.cat <= to.cat


# --------------------------------------------------------------------------- helpers
class Size(tuple):
    def numel(self):
        n = 1
        for s in self:
            n *= s
        return n

    def __repr__(self):
        return 'torch.Size(%s)' % (list(self),)

    def __getitem__(self, k):
        r = tuple.__getitem__(self, k)
        return Size(r) if _isinstance(k, slice) else r


class device:
    def __init__(self, name='cpu'):
        self.type = str(name)

    def __repr__(self):
        return "device(type='%s')" % self.type

    def __eq__(self, o):
        return True

    def __hash__(self):
        return 0


_CPU = device('cpu')


def _objarr(x):
    """anything array-like -> numpy object array (no copy for object arrays)."""
    if _isinstance(x, _np.ndarray):
        return x if x.dtype == object else x.astype(object)
    if _isinstance(x, (Z, C, SymInt)) or _np.isscalar(x):
        r = _np.empty((), dtype=object)
        r[()] = x
        return r
    if _isinstance(x, (list, tuple)):
        def conv(v):
            if _isinstance(v, Tensor):
                return v.a.tolist() if v.a.ndim else v.a[()]
            if _isinstance(v, (list, tuple)):
                return [conv(u) for u in v]
            return v
        lst = conv(list(x))
        shp = _nested_shape(lst)
        r = _np.empty(shp, dtype=object)
        _fill(r, lst, ())
        return r
    r = _np.empty((), dtype=object)
    r[()] = x
    return r


def _nested_shape(l):
    if _isinstance(l, list):
        if len(l) == 0:
            return (0,)
        s0 = _nested_shape(l[0])
        for e in l[1:]:
            if _nested_shape(e) != s0:
                raise ValueError('ragged nested sequence')
        return (len(l),) + s0
    return ()


def _fill(r, l, idx):
    if _isinstance(l, list):
        for i, e in enumerate(l):
            _fill(r, e, idx + (i,))
    else:
        r[idx] = l


def _pyify(v):
    """numpy scalar -> python scalar (keeps object arrays free of numpy scalar types)."""
    if _isinstance(v, _np.generic):
        return v.item()
    return v


def _infer_dtype_from_np(arr):
    if arr.dtype == _np.float64:
        return float64
    if arr.dtype == _np.float32:
        return float32
    if arr.dtype == _np.complex128:
        return complex128
    if arr.dtype == _np.complex64:
        return complex64
    if arr.dtype == _np.bool_:
        return bool_
    if _np.issubdtype(arr.dtype, _np.integer):
        return int64
    return None


def _infer_dtype_from_values(arr):
    cat = 0
    for v in arr.flat:
        cat = _py_max(cat, _scalar_cat(v))
    return {0: bool_, 1: int64, 2: _default_dtype, 3: complex64}[cat]


def _wrap_err(f):
    def g(*a, **k):
        try:
            return f(*a, **k)
        except (ValueError, TypeError) as e:
            if _isinstance(e, Unsupported):
                raise
            raise RuntimeError('symtorch: ' + str(e))
    g.__name__ = getattr(f, '__name__', 'f')
    return g


_VERSION = itertools.count()


class Tensor:
    __array_priority__ = 2000
    @property
    def _version(self):
        # bumped by in-place operations; as in torch the counter is shared between a base and its views
        return self._vcell[0]
    _conjbit = False       # torch's lazy-conjugation bit: set on the result of conj() of a complex tensor, kept by views/detach, dropped by clone and arithmetic

    def is_conj(self):
        return self._conjbit

    def resolve_conj(self):
        if not self._conjbit:
            return self
        return _mk(self.a.copy(), self.dtype, (self,))

    def __init__(self, a, dt, requires_grad=False):
        if not (_isinstance(a, _np.ndarray) and a.dtype == object):
            a = _objarr(a)
        self.a = a
        self.dtype = dt
        self.requires_grad = requires_grad
        self.grad_fn = None
        self.grad = None
        self.is_leaf = True
        self._node = None
        self._vcell = [0]

    def __deepcopy__(self, memo):
        # torch: graph leaves only; the copy is a new leaf holding a copy of the data (same requires_grad, same class)
        if id(self) in memo:
            return memo[id(self)]
        if not self.is_leaf:
            raise RuntimeError('Only Tensors created explicitly by the user (graph leaves) support the deepcopy protocol at the moment.')
        r = Tensor.__new__(type(self))
        Tensor.__init__(r, self.a.copy(), self.dtype, self.requires_grad)
        if self.grad is not None:
            r.grad = self.grad.__deepcopy__(memo)
        memo[id(self)] = r
        return r

    # -- metadata
    @property
    def shape(self):
        return Size(self.a.shape)

    def size(self, dim=None):
        return self.shape if dim is None else self.a.shape[dim]

    def dim(self):
        return self.a.ndim

    @property
    def ndim(self):
        return self.a.ndim

    def numel(self):
        return int(self.a.size)

    def nelement(self):
        return int(self.a.size)

    @property
    def device(self):
        return _CPU

    @property
    def is_cuda(self):
        return False

    def is_complex(self):
        return self.dtype.is_complex

    def is_floating_point(self):
        return self.dtype.is_floating_point

    def __len__(self):
        if self.a.ndim == 0:
            raise TypeError('len() of a 0-d tensor')
        return self.a.shape[0]

    def __repr__(self):
        return 'symtensor(shape=%s, dtype=%s)' % (list(self.a.shape), self.dtype)

    def _new(self, a, dt=None):
        return _mk(a, self.dtype if dt is None else dt, (self,))

    # -- conversions
    def item(self):
        if self.a.size != 1:
            raise RuntimeError('a Tensor with %d elements cannot be converted to Scalar' % self.a.size)
        v = self.a.reshape(())[()]
        from . import autograd
        if autograd.ENABLED and (self.requires_grad or self.grad_fn is not None):
            return autograd.cut_value(v)
        return v

    def tolist(self):
        return self.a.tolist() if self.a.ndim else self.a[()]

    def numpy(self):
        if self.requires_grad or self.grad_fn is not None:
            raise RuntimeError("Can't call numpy() on Tensor that requires grad.")
        from . import symnumpy
        return symnumpy.ndarray_from_tensor(self)

    def cpu(self):
        return self

    def cuda(self, device=None):
        return self

    def to(self, *args, **kw):
        dt = kw.get('dtype', None)
        for x in args:
            if _isinstance(x, dtype) or x in (_py_float, _py_complex, int, _py_bool):
                dt = x
        # torch accepts the python builtins float / complex / int / bool as dtypes
        if dt is _py_float:
            dt = float64
        elif dt is _py_complex:
            dt = complex128
        elif dt is int:
            dt = int64
        elif dt is _py_bool:
            dt = bool_
        if dt is None or dt is self.dtype:
            return self
        return _cast(self, dt)

    def type(self, dt=None):
        if dt is None:
            return self.dtype
        return self.to(dtype=dt)

    def double(self):
        return self.to(dtype=float64)

    def long(self):
        return self.to(dtype=int64)

    def is_contiguous(self):
        return True if self.a.flags['C_CONTIGUOUS'] else False

    def contiguous(self):
        if self.a.flags['C_CONTIGUOUS']:
            return self
        return _mk(_np.ascontiguousarray(self.a), self.dtype, (self,))

    def storage_offset(self):
        root = self.a
        while root.base is not None and _isinstance(root.base, _np.ndarray):
            root = root.base
        off = self.a.__array_interface__['data'][0] - root.__array_interface__['data'][0]
        return int(off // self.a.itemsize) if self.a.itemsize else 0

    def data_ptr(self):
        return int(self.a.__array_interface__['data'][0])

    def detach(self):
        from . import autograd
        if autograd.ENABLED and (self.requires_grad or self.grad_fn is not None):
            return Tensor(autograd.cut_array(self.a), self.dtype)     # value-equal copy, independent for differentiation
        r = Tensor(self.a, self.dtype)   # shares storage, cut from the graph
        r._detached_from = self
        r._conjbit = self._conjbit
        return r

    def clone(self):
        return _mk(self.a.copy(), self.dtype, (self,))

    def requires_grad_(self, flag=True):
        if flag and not (self.dtype.cat >= 2):
            raise RuntimeError('only Tensors of floating point and complex dtype can require gradients')
        if not self.is_leaf and not flag:
            raise RuntimeError('you can only change requires_grad flags of leaf variables.')
        from . import autograd
        if autograd.ENABLED and flag:
            if self.grad_fn is not None:
                return self        # already part of a graph: torch keeps it a non-leaf that requires grad
            autograd.make_leaf(self)
        self.requires_grad = flag
        return self

    def retain_grad(self):
        return None

    def backward(self):
        from . import autograd
        return autograd.backward(self)

    def any(self, dim=None):
        if dim is not None:
            unsupported('Tensor.any(dim)')
        r = False
        for v in self.a.flat:
            if _py_bool(v != 0 if self.dtype.cat > 0 else v):
                r = True
                break
        return Tensor(_objarr(r), bool_)

    def all(self, dim=None):
        if dim is not None:
            unsupported('Tensor.all(dim)')
        r = True
        for v in self.a.flat:
            if not _py_bool(v != 0 if self.dtype.cat > 0 else v):
                r = False
                break
        return Tensor(_objarr(r), bool_)

    def __bool__(self):
        if self.a.size != 1:
            raise RuntimeError('Boolean value of Tensor with more than one value is ambiguous')
        v = self.a.reshape(())[()]
        return _py_bool(v != 0 if self.dtype.cat > 0 else v)

    def __float__(self):
        v = self.item()
        return _py_float(v)

    def __int__(self):
        return int(self.item())

    def __index__(self):
        if self.dtype.cat > 1:
            raise TypeError('only integer tensors of a single element can be converted to an index')
        return int(self.item())

    # -- arithmetic
    def _binop(self, o, f, reverse=False):
        if _isinstance(o, Tensor):
            dt = _result_dtype(self, o)
            try:
                a = f(o.a, self.a) if reverse else f(self.a, o.a)
            except ValueError as e:
                raise RuntimeError('symtorch broadcast: ' + str(e))
            return _mk(a, dt, (self, o))
        if _isinstance(o, (Z, C, SymInt, _sc.Havoc)) or _isinstance(o, (int, _py_float, _py_complex, Fraction, _np.generic)) or (_isinstance(o, numbers.Number) and hasattr(o, 'to_z3')):
            o = _pyify(o)
            dt = _result_dtype(self, o)
            oa = _objarr(o)
            a = f(oa, self.a) if reverse else f(self.a, oa)
            return _mk(a, dt, (self,))
        if _isinstance(o, _np.ndarray):
            unsupported('tensor op numpy array')
        return NotImplemented

    def __add__(self, o):
        return self._binop(o, lambda x, y: x + y)

    def __radd__(self, o):
        return self._binop(o, lambda x, y: x + y, True)

    def __sub__(self, o):
        return self._binop(o, lambda x, y: x - y)

    def __rsub__(self, o):
        return self._binop(o, lambda x, y: x - y, True)

    def __mul__(self, o):
        return self._binop(o, lambda x, y: x * y)

    def __rmul__(self, o):
        return self._binop(o, lambda x, y: x * y, True)

    def __truediv__(self, o):
        r = self._binop(o, lambda x, y: x / y)
        if r is not NotImplemented and r.dtype.cat < 2:
            r.dtype = _default_dtype
            if _default_dtype.bits == 32:
                r.a = _narrow32(r.a)          # integer / integer is computed in the default (single) precision
        return r

    def __rtruediv__(self, o):
        r = self._binop(o, lambda x, y: x / y, True)
        if r is not NotImplemented and r.dtype.cat < 2:
            r.dtype = _default_dtype
            if _default_dtype.bits == 32:
                r.a = _narrow32(r.a)          # number / integer tensor is computed in the default (single) precision
        return r

    def __pow__(self, n):
        if _isinstance(n, Tensor):
            n = n.item()
        f = _np.frompyfunc(lambda v: v ** n, 1, 1)
        a = f(self.a) if self.a.size else self.a.copy()
        return _mk(a if _isinstance(a, _np.ndarray) else _objarr(a), self.dtype, (self,))

    def __neg__(self):
        return _mk(-self.a, self.dtype, (self,))

    def __pos__(self):
        return self

    def __matmul__(self, o):
        return matmul(self, o)

    def __rmatmul__(self, o):
        return matmul(o, self)

    def _inplace(self, o, f):
        _check_inplace(self)
        if _isinstance(o, Tensor):
            dt = _result_dtype(self, o)
            ov = o.a
        else:
            o = _pyify(o)
            dt = _result_dtype(self, o)
            ov = _objarr(o)
        if not _can_cast(dt, self.dtype):
            raise RuntimeError("result type %s can't be cast to the desired output type %s" % (dt, self.dtype))
        try:
            res = f(self.a, ov)
            if not _isinstance(res, _np.ndarray):
                res = _objarr(res)          # (operations on 0-d object arrays return the bare object)
            if res.shape != self.a.shape:
                raise RuntimeError('output with shape %s doesn\'t match the broadcast shape %s' % (list(self.a.shape), list(res.shape)))
            self.a[...] = res
        except ValueError as e:
            raise RuntimeError('symtorch inplace: ' + str(e))
        _bump(self, (o,) if _isinstance(o, Tensor) else ())
        return self

    def copy_(self, o):
        return self._inplace(o, lambda x, y: y + _np.zeros(x.shape, dtype=object) if _isinstance(y, _np.ndarray) else y)

    def __iadd__(self, o):
        return self._inplace(o, lambda x, y: x + y)

    def __isub__(self, o):
        return self._inplace(o, lambda x, y: x - y)

    def __imul__(self, o):
        return self._inplace(o, lambda x, y: x * y)

    def __itruediv__(self, o):
        if self.dtype.cat < 2:
            raise RuntimeError("result type Float can't be cast to the desired output type Long")
        return self._inplace(o, lambda x, y: x / y)

    # comparisons (elementwise -> bool tensor of SymBool/py bools)
    def _cmp(self, o, f):
        ov = o.a if _isinstance(o, Tensor) else o
        if not _isinstance(ov, _np.ndarray):
            ov = _objarr(_pyify(ov)) if not _isinstance(ov, _sc.Havoc) else _hv0()
        return Tensor(_np.frompyfunc(f, 2, 1)(self.a, ov), bool_)

    def __eq__(self, o):
        if o is None or _isinstance(o, (str, list, tuple)):
            return False
        return self._cmp(o, lambda x, y: x == y)

    def __ne__(self, o):
        if o is None or _isinstance(o, (str, list, tuple)):
            return True
        return self._cmp(o, lambda x, y: x != y)

    def __lt__(self, o):
        return self._cmp(o, lambda x, y: x < y)

    def __le__(self, o):
        return self._cmp(o, lambda x, y: x <= y)

    def __gt__(self, o):
        return self._cmp(o, lambda x, y: x > y)

    def __ge__(self, o):
        return self._cmp(o, lambda x, y: x >= y)

    __hash__ = object.__hash__

    # -- shape ops (methods)
    def reshape(self, *shape):
        if len(shape) == 1 and _isinstance(shape[0], (list, tuple)):
            shape = shape[0]
        return reshape(self, shape)

    def view(self, *shape):
        if len(shape) == 1 and _isinstance(shape[0], (list, tuple)):
            shape = shape[0]
        if len(shape) == 1 and _isinstance(shape[0], dtype):
            unsupported('view(dtype)')
        r = reshape(self, shape)
        # torch.Tensor.view never copies: it fails where the strides are incompatible (numpy has the same notion)
        probe = self.a.view()
        try:
            probe.shape = tuple(r.a.shape)
        except AttributeError:
            raise RuntimeError("view size is not compatible with input tensor's size and stride (at least one dimension spans across two contiguous subspaces). Use .reshape(...) instead.")
        return _mk(probe, self.dtype, (self,), view=True)

    def permute(self, *dims):
        if len(dims) == 1 and _isinstance(dims[0], (list, tuple)):
            dims = dims[0]
        return permute(self, dims)

    def t(self):
        if self.a.ndim > 2:
            raise RuntimeError('t() expects a tensor with <= 2 dimensions')
        return _mk(self.a.T, self.dtype, (self,), view=True)

    @property
    def T(self):
        return _mk(self.a.T, self.dtype, (self,), view=True)

    def transpose(self, d0, d1):
        return _mk(_np.swapaxes(self.a, d0, d1), self.dtype, (self,), view=True)

    def swapaxes(self, d0, d1):
        return self.transpose(d0, d1)

    def movedim(self, src, dst):
        return movedim(self, src, dst)

    def adjoint(self):
        return adjoint(self)

    @property
    def mT(self):
        return self.transpose(-2, -1)

    @property
    def mH(self):
        return adjoint(self)

    @property
    def H(self):
        if self.a.ndim > 2:
            raise RuntimeError('tensor.H is only supported on matrices (2-D tensors)')
        return adjoint(self) if self.a.ndim == 2 else conj(self)

    def squeeze(self, dim=None):
        return squeeze(self, dim)

    def unsqueeze(self, dim):
        return unsqueeze(self, dim)

    def expand_as(self, other):
        try:
            a = _np.broadcast_to(self.a, other.a.shape)
        except ValueError:
            raise RuntimeError('The expanded size of the tensor must match the existing size at a non-singleton dimension; target %s, tensor %s'
                               % (list(other.a.shape), list(self.a.shape)))
        return _mk(_np.array(a, dtype=object, copy=True).reshape(a.shape), self.dtype, (self,))

    def flatten(self, start_dim=0, end_dim=-1):
        return flatten(self, start_dim, end_dim)

    def unflatten(self, dim, sizes):
        return unflatten(self, dim, sizes)

    def clamp(self, min=None, max=None):  # noqa: A002
        return clamp(self, min, max)

    @property
    def real(self):
        return real(self) if self.dtype.is_complex else self

    @property
    def imag(self):
        if not self.dtype.is_complex:
            raise RuntimeError('imag is not implemented for tensors with non-complex dtypes.')
        return imag(self)

    def topk(self, k, dim=-1, largest=True, sorted=True):  # noqa: A002
        return topk(self, k, dim, largest, sorted)

    def sort(self, dim=-1, descending=False):
        return sort(self, dim, descending)

    def conj(self):
        return conj(self)

    def sum(self, dim=None, keepdim=False):
        return sum(self, dim, keepdim)

    def abs(self):
        return abs(self)

    def __abs__(self):
        return abs(self)

    def sqrt(self):
        return sqrt(self)

    def norm(self):
        return linalg.norm(self)

    def diagonal(self, offset=0, dim1=0, dim2=1):
        return diagonal(self, offset, dim1, dim2)

    def max(self):
        unsupported('Tensor.max')

    def min(self):
        unsupported('Tensor.min')

    # -- indexing
    def __getitem__(self, key):
        return _getitem(self, key)

    def __setitem__(self, key, val):
        _check_inplace(self)
        if self.a.ndim == 1 and (_isinstance(key, SymInt) or (_isinstance(key, Tensor) and key.a.ndim == 0 and _isinstance(key.a[()], SymInt))):
            # store at a symbolic position of a vector: every slot becomes if-then-else(position == j, value, old)
            import z3
            kk = key if _isinstance(key, SymInt) else key.a[()]
            n = self.a.shape[0]
            if not SymBool(z3.And(kk.t >= -n, kk.t < n)):
                raise IndexError('index out of range (symbolic)')
            pos = z3.If(kk.t < 0, kk.t + n, kk.t)
            vv = val.a.reshape(-1)[0] if _isinstance(val, Tensor) else val
            for j in range(n):
                old_ = self.a[j]
                if old_ is vv:
                    continue
                if _isinstance(vv, (SymInt, int, _np.integer)) and _isinstance(old_, (SymInt, int, _np.integer)):
                    self.a[j] = SymInt(z3.If(pos == j, SymInt.lift(vv).t, SymInt.lift(old_).t))
                elif vv is _sc.HAVOC or old_ is _sc.HAVOC:
                    self.a[j] = _sc.HAVOC
                else:
                    unsupported('symbolic-position store of this value kind')
            return
        k, adv = _norm_key(self, key)
        if adv is not None:
            kind_, pos_, idx_ = adv
            if kind_ != 'arr' or not _py_all(_isinstance(q, (int, _np.integer)) for q in idx_.a.flat):
                unsupported('advanced-index assignment with symbolic positions')
            k = list(k)
            k[pos_] = _np.array([int(q) for q in idx_.a.flat], dtype=_np.int64).reshape(idx_.a.shape)
            k = tuple(k)
        v = val.a if _isinstance(val, Tensor) else _objarr(_pyify(val))
        if _isinstance(val, Tensor) and not _can_cast(val.dtype, self.dtype):
            raise RuntimeError("Index put requires the source and destination dtypes match")
        try:
            self.a[k] = v
        except ValueError as e:
            raise RuntimeError('symtorch setitem: ' + str(e))
        _bump(self, (val,) if _isinstance(val, Tensor) else ())

    def __iter__(self):
        if self.a.ndim == 0:
            raise TypeError('iteration over a 0-d tensor')
        for i in range(self.a.shape[0]):
            yield self[i]

    def __getattr__(self, name):
        if name.startswith('_'):
            raise AttributeError(name)
        known = _names().get('Tensor')
        if known is not None and name not in known:
            raise AttributeError("'Tensor' object has no attribute '%s'" % name)
        unsupported('Tensor.' + name)


# autograd bookkeeping hooks (filled in by tv.autograd when used) ---------------
def _mk(a, dt, parents=(), view=False):
    """make a result tensor; propagate 'tracked' flag (grad_fn) from parents."""
    if not _GRAD_MODE[0] and dt.cat >= 2:
        from . import autograd
        if autograd.ENABLED and _py_any(_isinstance(p, Tensor) and (p.requires_grad or p.grad_fn is not None) for p in parents):
            # computed under no_grad from tracked operands: same values, but no longer a function of the leaves for differentiation
            a = autograd.cut_array(a)
    if not view and dt.cat >= 2 and (dt.bits // (2 if dt.is_complex else 1)) == 32:
        # results of 32-bit arithmetic on concrete values are rounded like torch does (symbolic entries stay exact)
        if not (_isinstance(a, _np.ndarray) and a.dtype == object):
            a = _objarr(a)
        if a.size <= 4096:
            a = _narrow32(a)
    t = Tensor(a, dt)
    if _GRAD_MODE[0]:
        for p in parents:
            if _isinstance(p, Tensor) and (p.requires_grad or p.grad_fn is not None):
                if t.dtype.cat >= 2:
                    t.grad_fn = 'op'
                    t.requires_grad = True
                    t.is_leaf = False
                break
    if view and parents and _isinstance(parents[0], Tensor) and parents[0]._conjbit:
        t._conjbit = True
    if view and parents and _isinstance(parents[0], Tensor) and _isinstance(t.a, _np.ndarray) and t.a.size and _np.may_share_memory(t.a, parents[0].a):
        t._vcell = parents[0]._vcell          # a view shares the version counter of its base
    return t


def _check_inplace(t):
    t._vcell[0] += 1
    if t.requires_grad and t.is_leaf and _GRAD_MODE[0]:
        raise RuntimeError('a leaf Variable that requires grad is being used in an in-place operation.')


def _bump(t, parents):
    if not _GRAD_MODE[0]:
        return
    for p in parents:
        if _isinstance(p, Tensor) and (p.requires_grad or p.grad_fn is not None) and t.dtype.cat >= 2:
            t.grad_fn = 'op'
            t.requires_grad = True
            t.is_leaf = False


def _narrow32(a):
    """concrete python floats / rationals stored into a 32-bit floating tensor take the nearest float32 value (symbolic entries stay exact:
    rounding of symbolic data is outside the model)"""
    out = None
    for ix in (_np.ndindex(*a.shape) if a.ndim else [()]):
        v = a[ix]
        if _isinstance(v, C):
            continue
        if _isinstance(v, _py_complex):
            w = _py_complex(_py_float(_np.float32(v.real)), _py_float(_np.float32(v.imag)))
        elif _isinstance(v, (_py_float, Fraction)) and not _isinstance(v, _py_bool):
            f = _py_float(v)
            if f != f or f in (_py_float('inf'), -_py_float('inf')) or _py_abs(f) > 3.0e38:
                continue
            w = _py_float(_np.float32(f))
            if _isinstance(v, Fraction):
                w = Fraction(w)
        else:
            continue
        if w != v:
            if out is None:
                out = a.copy()
            out[ix] = w
    return a if out is None else out


def _cast(t, dt):
    if dt.cat < 3 and t.dtype.cat == 3:
        a = _np.frompyfunc(_sc.re_part, 1, 1)(t.a) if t.a.size else t.a.copy()
        a = _objarr(a) if not _isinstance(a, _np.ndarray) else a
    elif dt.cat == 1 and t.dtype.cat == 2:
        for v in t.a.flat:
            if not _isinstance(v, int):
                unsupported('float->int cast of non-integers')
        a = t.a.copy()
    else:
        a = t.a.copy()
    if dt.cat >= 2 and (dt.bits // (2 if dt.is_complex else 1)) == 32:
        a = _narrow32(a)
    return _mk(a, dt, (t,))


# --------------------------------------------------------------------------- indexing
def _norm_key(t, key):
    """normalise an index key; returns (numpy_key, adv) where adv describes one advanced/symbolic index."""
    if not _isinstance(key, tuple):
        key = (key,)
    out = []
    adv = None
    has_ell = False
    for k in key:
        if k is Ellipsis:
            has_ell = True
            out.append(k)
        elif k is None or _isinstance(k, slice):
            if _isinstance(k, slice):
                k = slice(*[_slice_part(p) for p in (k.start, k.stop, k.step)])
            out.append(k)
        elif _isinstance(k, (_py_bool, _np.bool_)):
            unsupported('boolean index')
        elif _isinstance(k, (int, _np.integer)):
            out.append(int(k))
        elif _isinstance(k, SymInt):
            tt = k.t
            import z3
            ts = z3.simplify(tt)
            if z3.is_int_value(ts):
                out.append(ts.as_long())
            else:
                if adv is not None and adv[0] != 'sym':
                    unsupported('symbolic index combined with an advanced index')
                if adv is None:
                    adv = ('sym', len(out), k)
                out.append(k)
        elif _isinstance(k, Tensor):
            if k.dtype.cat > 1:
                raise IndexError('tensors used as indices must be long, int, byte or bool tensors')
            if k.dtype.cat == 0:
                # boolean mask over one axis: the selected positions (symbolic entries are decided by the explorer, one fork per entry)
                if k.a.ndim != 1 or adv is not None:
                    unsupported('boolean mask index of this form')
                ax_ = _py_sum(1 for q in out if q is not None and q is not Ellipsis)
                if ax_ >= t.a.ndim or k.a.shape[0] != t.a.shape[ax_]:
                    raise IndexError('The shape of the mask does not match the shape of the indexed tensor')
                pos_ = [i_ for i_, v_ in enumerate(k.a) if _py_bool(v_)]
                kk = Tensor(_objarr(pos_) if pos_ else _np.empty((0,), dtype=object), int64)
                adv = ('arr', len(out), kk)
                out.append(kk)
                continue
            if k.a.ndim == 0:
                v = k.a[()]
                if _isinstance(v, SymInt):
                    if adv is not None and adv[0] != 'sym':
                        unsupported('symbolic index combined with an advanced index')
                    if adv is None:
                        adv = ('sym', len(out), v)
                    out.append(v)
                else:
                    out.append(int(v))
            else:
                if adv is not None:
                    unsupported('more than one advanced index')
                adv = ('arr', len(out), k)
                out.append(k)
        elif type(k).__name__ == 'ndarray' and hasattr(k, 'tdtype'):
            # numpy-array stand-in (symnumpy.ndarray) holding integer positions
            kk = Tensor(k.a, int64)
            if kk.a.ndim == 0:
                unsupported('0-d numpy index')
            if adv is not None:
                unsupported('more than one advanced index')
            adv = ('arr', len(out), kk)
            out.append(kk)
        elif _isinstance(k, (list, _np.ndarray)):
            kk = Tensor(_objarr(_np.asarray(k)), int64)
            if adv is not None:
                unsupported('more than one advanced index')
            adv = ('arr', len(out), kk)
            out.append(kk)
        else:
            raise TypeError('invalid index of type %s' % type(k).__name__)
    if not has_ell:
        out.append(Ellipsis)
    nsym = _py_sum(1 for k in out if _isinstance(k, SymInt))
    if nsym and (SELECT_MODE == 'fork' or nsym > 1):
        # fork every symbolic integer into a concrete position (explorer branches; range errors as torch raises them)
        import z3
        for pos, k in enumerate(out):
            if not _isinstance(k, SymInt):
                continue
            axis = _axis_of(tuple(out), pos, t.a.ndim)
            if axis >= t.a.ndim:
                raise IndexError('too many indices for tensor of dimension %d' % t.a.ndim)
            n = t.a.shape[axis]
            if not SymBool(z3.And(k.t >= -n, k.t < n)):
                raise IndexError('index out of range (symbolic)')
            p_ = z3.If(k.t < 0, k.t + n, k.t)
            ctx = cur()
            val = n - 1
            for j in range(n - 1):
                if ctx.branch(p_ == j):
                    val = j
                    break
            else:
                ctx.pc.append(p_ == n - 1)
            out[pos] = val
        if adv is not None and adv[0] == 'sym':
            adv = None
    return tuple(out), adv


def _slice_part(p):
    if p is None:
        return None
    if _isinstance(p, SymInt):
        return p.concretize()
    if _isinstance(p, Tensor):
        return int(p)
    return int(p)


def _axis_of(key, pos, ndim):
    """axis of the source array addressed by key[pos]."""
    ax = 0
    n_consuming = _py_sum(1 for k in key if k is not None and k is not Ellipsis)
    for i, k in enumerate(key):
        if i == pos:
            return ax
        if k is None:
            continue
        if k is Ellipsis:
            ax += ndim - n_consuming
        else:
            ax += 1
    raise AssertionError


SELECT_MODE = 'fork'     # 'fork': explorer branches over the position; 'ite': if-then-else chain terms


def _take(a, j, axis):
    return a[(slice(None),) * axis + (j, Ellipsis)]


def _sym_select(a, axis, idx, mode=None):
    """a.take(idx, axis) for a symbolic integer idx (negative allowed)."""
    import z3
    n = a.shape[axis]
    ok = SymBool(z3.And(idx.t >= -n, idx.t < n))
    if not ok:
        raise IndexError('index out of range (symbolic)')
    if n == 0:
        raise IndexError('index into empty axis')
    pos = z3.If(idx.t < 0, idx.t + n, idx.t)
    if (mode or SELECT_MODE) == 'fork':
        ctx = cur()
        for j in range(n - 1):
            if ctx.branch(pos == j):
                return _take(a, j, axis)
        ctx.pc.append(pos == n - 1)
        return _take(a, n - 1, axis)
    sl = [_take(a, j, axis) for j in range(n)]
    res = _np.empty(sl[0].shape, dtype=object)
    it = _np.ndindex(res.shape) if res.ndim else [()]
    for ix in it:
        vals = [s[ix] for s in sl]
        res[ix] = _ite_chain(pos, vals)
    return res


def _ite_chain(pos, vals):
    import z3
    first = vals[0]
    if _py_all(v is first for v in vals):
        return first
    cplx = _py_any(_isinstance(v, (C, _py_complex)) for v in vals)
    if cplx:
        re = _ite_chain(pos, [_sc.re_part(v) for v in vals])
        im = _ite_chain(pos, [_sc.im_part(v) for v in vals])
        return C(re, im)
    if _py_all(_isinstance(v, (SymInt, int)) and not _isinstance(v, _py_bool) for v in vals):
        ts = [SymInt.lift(v).t for v in vals]
        r = ts[-1]
        for j in range(len(ts) - 2, -1, -1):
            r = z3.If(pos == j, ts[j], r)
        return SymInt(r)
    if _py_any(hasattr(v, 'to_z3') for v in vals):
        unsupported('symbolic index into A-scalar tensor')
    ts = [_sc.to_z3_real(v) for v in vals]
    r = ts[-1]
    for j in range(len(ts) - 2, -1, -1):
        r = z3.If(pos == j, ts[j], r)
    return Z(r)


def _getitem(t, key):
    k, adv = _norm_key(t, key)
    try:
        if adv is None:
            return _mk(t.a[k], t.dtype, (t,), view=True)
        kind, pos, idx = adv
        axis = _axis_of(k, pos, t.a.ndim)
        if kind == 'sym':
            sel = _sym_select(t.a, axis, idx)      # axis removed
            k2 = list(k)
            del k2[pos]
            return _mk(sel[tuple(k2)], t.dtype, (t,))
        # integer tensor index on one axis
        ia = idx.a
        if _py_all(_isinstance(v, (int, _np.integer)) for v in ia.flat):
            k2 = list(k)
            k2[pos] = _np.array(ia.tolist(), dtype=_np.int64).reshape(ia.shape)
            n = t.a.shape[axis]
            if ia.size and (k2[pos].max() >= n or k2[pos].min() < -n):
                raise IndexError('index out of range')
            # one advanced index: numpy and torch agree on the result layout
            return _mk(t.a[tuple(k2)], t.dtype, (t,))
        # symbolic entries: apply the basic part first (keeping the axis), then select per entry
        kb = list(k)
        kb[pos] = slice(None)
        base = t.a[tuple(kb)]
        # position of the axis in base
        ax2 = 0
        for i, kk in enumerate(kb):
            if i == pos:
                break
            if kk is None:
                ax2 += 1
            elif kk is Ellipsis:
                nc = _py_sum(1 for q in kb if q is not None and q is not Ellipsis)
                ax2 += t.a.ndim - nc
            elif _isinstance(kk, slice):
                ax2 += 1
        outs = []
        for v in ia.flat:
            vv = v if _isinstance(v, SymInt) else SymInt.lift(v)
            outs.append(_sym_select(base, ax2, vv, 'ite'))
        st = _np.stack(outs, axis=ax2) if outs else base.take([], axis=ax2)
        st = st.reshape(st.shape[:ax2] + ia.shape + st.shape[ax2 + 1:])
        return _mk(st, t.dtype, (t,))
    except IndexError:
        raise
    except ValueError as e:
        raise RuntimeError('symtorch index: ' + str(e))


# --------------------------------------------------------------------------- creation
def _shape_arg(shape):
    if len(shape) == 1 and _isinstance(shape[0], (list, tuple, Size)):
        shape = shape[0]
    out = []
    for s in shape:
        if _isinstance(s, Tensor):
            s = int(s)
        if _isinstance(s, SymInt):
            s = s.concretize()
        if _isinstance(s, _np.integer):
            s = int(s)
        if not _isinstance(s, int) or _isinstance(s, _py_bool):
            raise TypeError('shape entries must be ints, got %s' % type(s).__name__)
        if s < 0:
            raise RuntimeError('negative dimension')
        out.append(s)
    return tuple(out)


def _full(shape, v, dt):
    a = _np.empty(shape, dtype=object)
    a[...] = v
    return Tensor(a, dt)


def ones(*shape, dtype=None, device=None, requires_grad=False):
    return _full(_shape_arg(shape), 1, dtype or _default_dtype)


def zeros(*shape, dtype=None, device=None, requires_grad=False):
    return _full(_shape_arg(shape), 0, dtype or _default_dtype)


def empty(*shape, dtype=None, device=None):
    return zeros(*shape, dtype=dtype)


def empty_like(t, dtype=None, device=None):
    return _full(t.a.shape, 0, dtype or t.dtype)


def as_tensor(data, dtype=None, device=None):
    if _isinstance(data, Tensor):
        return data if dtype is None or dtype is data.dtype else _cast(data, dtype)
    return tensor(data, dtype=dtype)


def remainder(t, other):
    # python / torch convention: the result has the sign of the divisor
    o = other.a if _isinstance(other, Tensor) else _objarr(_pyify(other))
    a = _np.frompyfunc(lambda x, y: x % y, 2, 1)(t.a, o)
    return _mk(a if _isinstance(a, _np.ndarray) else _objarr(a), t.dtype, (t,))


def unique(t, sorted=True, return_inverse=False, return_counts=False, dim=None):  # noqa: A002
    """integer tensors only; symbolic entries are concretised (the explorer forks over their feasible values)"""
    if dim is not None or return_counts or t.dtype.cat != 1:
        unsupported('torch.unique of this form')
    vals = []
    for v in t.a.flat:
        vals.append(v.concretize() if _isinstance(v, SymInt) else int(v))
    u = _builtins.sorted(set(vals))
    ut = Tensor(_objarr(u) if u else _np.empty((0,), dtype=object), t.dtype)
    if not return_inverse:
        return ut
    inv = _objarr([u.index(v) for v in vals]).reshape(t.a.shape) if vals else _np.empty(t.a.shape, dtype=object)
    return ut, Tensor(inv, int64)


def ones_like(t, dtype=None, device=None):
    return _full(t.a.shape, 1, dtype or t.dtype)


def zeros_like(t, dtype=None, device=None):
    return _full(t.a.shape, 0, dtype or t.dtype)


def full(shape, v, dtype=None, device=None):
    return _full(_shape_arg((shape,)), v, dtype or _default_dtype)


def eye(n, m=None, dtype=None, device=None):
    n = _shape_arg((n,))[0]
    m = n if m is None else _shape_arg((m,))[0]
    a = _np.empty((n, m), dtype=object)
    a[...] = 0
    for i in range(_py_min(n, m)):
        a[i, i] = 1
    return Tensor(a, dtype or _default_dtype)


def arange(*args, dtype=None, device=None):
    args = [int(x) if _isinstance(x, (int, _np.integer)) else x for x in args]
    for x in args:
        if not _isinstance(x, int):
            unsupported('arange with non-integer arguments')
    vals = list(range(*args))
    return Tensor(_objarr(vals) if vals else _np.empty((0,), dtype=object), dtype or int64)


def linspace(*a, **k):
    unsupported('linspace')


_RNG_COUNT = [0]


def randn(*shape, dtype=None, device=None, requires_grad=False):
    shp = _shape_arg(shape)
    dt = dtype or _default_dtype
    return _fresh_tensor(shp, dt, 'rnd')


rand = randn


def _fresh_tensor(shp, dt, base):
    a = _np.empty(shp, dtype=object)
    for ix in _np.ndindex(*shp):
        a[ix] = _FRESH(base, dt)
    return Tensor(a, dt)


def _default_fresh(base, dt):
    if dt.is_complex:
        return C(_sc.real(base + 're'), _sc.real(base + 'im'))
    return _sc.real(base)


_FRESH = _default_fresh


def set_fresh(f):
    global _FRESH
    _FRESH = f or _default_fresh


def havoc_fresh(base, dt):
    """fresh value in the index-level (havoc) mode: floating data carries no information"""
    if dt.cat >= 2:
        return _sc.HAVOC
    return _default_fresh(base, dt)


def _hv0():
    r = _np.empty((), dtype=object)
    r[()] = _sc.HAVOC
    return r


def _all_havoc(a):
    return a.size > 0 and _py_all(v is _sc.HAVOC for v in a.flat)


def _fresh_index(name, lo, hi):
    """fresh symbolic integer in [lo, hi)"""
    import z3
    v = SymInt(z3.Int(cur().fresh_name(name)))
    cur().assume(SymBool(z3.And(v.t >= lo, v.t < hi)))
    return v


def topk(t, k, dim=-1, largest=True, sorted=True):  # noqa: A002
    if t.a.ndim != 1:
        unsupported('topk of a non-vector')
    n = t.a.shape[0]
    k = int(k)
    if k > n:
        raise RuntimeError('selected index k out of range')
    if not _all_havoc(t.a):
        unsupported('topk on tracked values')
    import z3
    idx = [_fresh_index('topk', 0, n) for _ in range(k)]
    for i in range(k):
        for j in range(i):
            cur().assume(SymBool(idx[i].t != idx[j].t))
    vals = _np.empty((k,), dtype=object)
    vals[...] = _sc.HAVOC
    return Tensor(vals, t.dtype), Tensor(_objarr(idx) if k else _np.empty((0,), dtype=object), int64)


def sort(t, dim=-1, descending=False):
    if t.a.ndim != 1:
        unsupported('sort of a non-vector')
    n = t.a.shape[0]
    vals = list(t.a)
    if _py_all(_isinstance(v, (int, _np.integer)) and not _isinstance(v, _py_bool) for v in vals):
        order = _b_sorted(range(n), key=lambda i: vals[i], reverse=_py_bool(descending))
        return Tensor(_objarr([int(vals[i]) for i in order]), t.dtype), Tensor(_objarr(order), int64)
    if t.dtype.cat != 1:
        unsupported('sort of symbolic floating data')
    # symbolic integers: fresh sorted values, each equal to one of the inputs (multiplicities are not tracked)
    import z3
    ts = [SymInt.lift(v).t for v in vals]
    out = []
    for j in range(n):
        s_ = SymInt(z3.Int(cur().fresh_name('sorted')))
        cur().assume(SymBool(z3.Or(*[s_.t == x for x in ts])))
        if out:
            cur().assume(SymBool(out[-1].t >= s_.t if descending else out[-1].t <= s_.t))
        out.append(s_)
    perm = [_fresh_index('sortidx', 0, n) for _ in range(n)]
    return Tensor(_objarr(out), t.dtype), Tensor(_objarr(perm), int64)


def tensor(data, dtype=None, device=None, requires_grad=False):
    from . import symnumpy
    if _isinstance(data, Tensor):
        from . import autograd
        if autograd.ENABLED and (data.requires_grad or data.grad_fn is not None):
            return Tensor(autograd.cut_array(data.a), dtype or data.dtype)
        r = Tensor(data.a.copy(), dtype or data.dtype)
        return r
    if _isinstance(data, symnumpy.ndarray):
        return Tensor(data.a.copy(), dtype or data.tdtype)
    if _isinstance(data, _np.ndarray):
        dt = _infer_dtype_from_np(data)
        a = _np.empty(data.shape, dtype=object)
        for ix in _np.ndindex(*data.shape):
            a[ix] = _pyify(data[ix])
        if data.dtype == object:
            dt = _infer_dtype_from_values(a)
        return Tensor(a, dtype or dt)
    if _isinstance(data, _np.generic):
        dt = _infer_dtype_from_np(_np.asarray(data))
        return Tensor(_objarr(_pyify(data)), dtype or dt)
    if _isinstance(data, range):
        data = list(data)
    a = _objarr(data)
    b = _np.empty(a.shape, dtype=object)
    for ix in _np.ndindex(*a.shape):
        b[ix] = _pyify(a[ix])
    if a.ndim == 0:
        b[()] = _pyify(a[()])
    dt = dtype or _infer_dtype_from_values(b)
    if dt.cat >= 2 and (dt.bits // (2 if dt.is_complex else 1)) == 32:
        b = _narrow32(b)
    t = Tensor(b, dt)
    if requires_grad:
        t.requires_grad = True
    return t


as_tensor = tensor


def from_numpy(x):
    return tensor(x)


class _FInfo:
    def __init__(self, dt):
        bits = dt.bits // 2 if dt.is_complex else dt.bits
        if dt.cat < 2:
            raise TypeError('torch.finfo() requires a floating point input type')
        if bits == 64:
            self.eps, self.tiny, self.max, self.bits = 2.0 ** -52, 2.2250738585072014e-308, 1.7976931348623157e+308, 64
        else:
            self.eps, self.tiny, self.max, self.bits = 2.0 ** -23, 1.1754943508222875e-38, 3.4028234663852886e+38, 32
        self.min = -self.max
        self.smallest_normal = self.tiny
        self.resolution = 1e-15 if bits == 64 else 1e-6
        self.dtype = dt.name


def finfo(dt=None):
    return _FInfo(dt or _default_dtype)


def where(cond, a=None, b=None):
    if a is None or b is None:
        unsupported('where(cond) without values')
    ca = cond.a if _isinstance(cond, Tensor) else _objarr(cond)
    aa = a.a if _isinstance(a, Tensor) else _objarr(_pyify(a))
    ba = b.a if _isinstance(b, Tensor) else _objarr(_pyify(b))
    try:
        ca, aa, ba = _np.broadcast_arrays(ca, aa, ba)
    except ValueError as e:
        raise RuntimeError('symtorch where: ' + str(e))
    out = _np.empty(ca.shape, dtype=object)
    it = _np.ndindex(*ca.shape) if ca.ndim else [()]
    for ix in it:
        # a symbolic condition is decided per entry by the explorer (fork)
        out[ix] = aa[ix] if _py_bool(ca[ix]) else ba[ix]
    dt = a.dtype if _isinstance(a, Tensor) else (b.dtype if _isinstance(b, Tensor) else _default_dtype)
    if _isinstance(a, Tensor) and _isinstance(b, Tensor):
        dt = promote_types(a.dtype, b.dtype)
    return _mk(out, dt, tuple(x for x in (a, b) if _isinstance(x, Tensor)))


def clamp(t, min=None, max=None):  # noqa: A002
    if min is None and max is None:
        raise RuntimeError("torch.clamp: At least one of 'min' or 'max' must not be None")
    if t.dtype.is_complex:
        raise RuntimeError('clamp is not supported for complex types')
    lo = _pyify(min.a.reshape(-1)[0]) if _isinstance(min, Tensor) and min.a.size == 1 else min
    hi = _pyify(max.a.reshape(-1)[0]) if _isinstance(max, Tensor) and max.a.size == 1 else max
    if _isinstance(lo, Tensor) or _isinstance(hi, Tensor):
        unsupported('clamp with tensor bounds')
    if _isinstance(lo, _py_float):
        lo = Fraction(lo)
    if _isinstance(hi, _py_float):
        hi = Fraction(hi)
    out = _np.empty(t.a.shape, dtype=object)
    it = _np.ndindex(*t.a.shape) if t.a.ndim else [()]
    for ix in it:
        v = t.a[ix]
        # decided per entry by the explorer (fork), as torch.where
        if lo is not None and _py_bool(v < lo):
            v = lo if not hasattr(t.a[ix], 't') or not hasattr(t.a[ix], 'key') else t.a[ix] * 0 + lo
        elif hi is not None and _py_bool(v > hi):
            v = hi if not hasattr(t.a[ix], 't') or not hasattr(t.a[ix], 'key') else t.a[ix] * 0 + hi
        out[ix] = v
    return _mk(out, t.dtype, (t,))


clip = clamp


def is_tensor(x):
    return _isinstance(x, Tensor)


def numel(t):
    return t.numel()


def is_complex(t):
    return t.dtype.is_complex


def get_default_dtype():
    return _default_dtype


# --------------------------------------------------------------------------- shape functions
@_wrap_err
def reshape(t, shape):
    shape = list(shape)
    shp = []
    for s in shape:
        if _isinstance(s, Tensor):
            s = int(s)
        if _isinstance(s, SymInt):
            s = s.concretize()
        if _isinstance(s, _np.integer):
            s = int(s)
        if not _isinstance(s, int):
            raise TypeError('reshape(): shape must be ints, got %s' % type(s).__name__)
        shp.append(s)
    if shp.count(-1) > 1:
        raise RuntimeError('only one dimension can be inferred')
    if _py_any(s < -1 for s in shp):
        raise RuntimeError('invalid shape dimension')
    if -1 in shp:
        known = 1
        for s in shp:
            if s != -1:
                known *= s
        if known == 0:
            raise RuntimeError('cannot reshape tensor of 0 elements into shape with -1 (ambiguous)')
        if t.a.size % known != 0:
            raise RuntimeError("shape '%s' is invalid for input of size %d" % (shp, t.a.size))
    else:
        n = 1
        for s in shp:
            n *= s
        if n != t.a.size:
            raise RuntimeError("shape '%s' is invalid for input of size %d" % (shp, t.a.size))
    return _mk(t.a.reshape(shp), t.dtype, (t,), view=True)


@_wrap_err
def permute(t, dims):
    dims = [int(d) for d in dims]
    if len(dims) != t.a.ndim:
        raise RuntimeError('permute: number of dims do not match')
    nd = t.a.ndim
    dd = [d + nd if d < 0 else d for d in dims]
    if sorted(dd) != list(range(nd)):
        raise RuntimeError('permute: repeated / invalid dim')
    return _mk(t.a.transpose(dd), t.dtype, (t,), view=True)


def transpose(t, d0, d1):
    return t.transpose(d0, d1)


def flatten(t, start_dim=0, end_dim=-1):
    nd = t.a.ndim
    if nd == 0:
        return reshape(t, [1])
    a0 = int(start_dim) % nd
    a1 = int(end_dim) % nd
    if a0 > a1:
        raise RuntimeError('flatten() has invalid args: start_dim cannot come after end_dim')
    shp = list(t.a.shape)
    n = 1
    for v in shp[a0:a1 + 1]:
        n *= v
    return reshape(t, shp[:a0] + [n] + shp[a1 + 1:])


def unflatten(t, dim, sizes):
    nd = t.a.ndim
    k = int(dim) % nd
    sizes = [int(v) for v in sizes]
    shp = list(t.a.shape)
    n = 1
    neg = [i for i, v in enumerate(sizes) if v == -1]
    for v in sizes:
        if v != -1:
            n *= v
    if len(neg) == 1 and n:
        sizes[neg[0]] = shp[k] // n
        n *= sizes[neg[0]]
    if n != shp[k]:
        raise RuntimeError('unflatten: Provided sizes %s don\'t multiply up to the size of dim %d (%d) in the input tensor' % (sizes, k, shp[k]))
    return reshape(t, shp[:k] + sizes + shp[k + 1:])


def swapaxes(t, d0, d1):
    return t.transpose(d0, d1)


swapdims = swapaxes


@_wrap_err
def movedim(t, source, destination):
    src = [source] if _isinstance(source, int) else list(source)
    dst = [destination] if _isinstance(destination, int) else list(destination)
    return _mk(_np.moveaxis(t.a, [int(v) for v in src], [int(v) for v in dst]), t.dtype, (t,), view=True)


moveaxis = movedim


def adjoint(t):
    if t.a.ndim < 2:
        raise RuntimeError('tensor.adjoint() is only supported on matrices or batches of matrices')
    return conj(t.transpose(-2, -1))


def t(x):
    return x.t()


def squeeze(t, dim=None):
    if dim is None:
        shp = [s for s in t.a.shape if s != 1]
        return _mk(t.a.reshape(shp), t.dtype, (t,), view=True)
    nd = t.a.ndim
    if nd == 0:
        if dim not in (0, -1):
            raise IndexError('Dimension out of range')
        return _mk(t.a, t.dtype, (t,), view=True)
    if not -nd <= dim < nd:
        raise IndexError('Dimension out of range')
    dim %= nd
    if t.a.shape[dim] != 1:
        return _mk(t.a, t.dtype, (t,), view=True)
    return _mk(t.a.reshape(t.a.shape[:dim] + t.a.shape[dim + 1:]), t.dtype, (t,), view=True)


def unsqueeze(t, dim):
    nd = t.a.ndim
    if not -(nd + 1) <= dim <= nd:
        raise IndexError('Dimension out of range')
    if dim < 0:
        dim += nd + 1
    return _mk(_np.expand_dims(t.a, dim), t.dtype, (t,), view=True)


def tile(t, reps):
    reps = tuple(int(r) for r in reps)
    return _mk(_np.tile(t.a, reps), t.dtype, (t,))


def cat(tensors, dim=0, axis=None):
    if axis is not None:
        dim = axis
    tensors = list(tensors)
    if len(tensors) == 0:
        raise RuntimeError('cat expects a non-empty list')
    dt = tensors[0].dtype
    for x in tensors[1:]:
        dt = promote_types(dt, x.dtype)
    nd = tensors[0].a.ndim
    for x in tensors:
        if x.a.ndim != nd:
            raise RuntimeError('Tensors must have same number of dimensions')
    try:
        a = _np.concatenate([x.a for x in tensors], axis=dim)
    except ValueError as e:
        raise RuntimeError('symtorch cat: ' + str(e))
    return _mk(a, dt, tensors)


concat = cat
concatenate = cat


def index_select(t, dim, index):
    if index.dtype.cat != 1 or index.a.ndim != 1:
        raise IndexError('index_select(): Index is supposed to be a vector of integers')
    import z3
    n = t.a.shape[dim]
    for v in index.a:
        ok = (SymBool(z3.And(v.t >= 0, v.t < n)) if _isinstance(v, SymInt) else (0 <= int(v) < n))
        if not ok:
            raise IndexError('index out of range in self')       # (index_select does not wrap negative positions)
    key = [slice(None)] * t.a.ndim
    key[dim] = index
    return _getitem(t, tuple(key)).clone()


def dist(a, b, p=2):
    if p != 2:
        unsupported('dist with p != 2')
    return _norm(a - b)


def hstack(tensors):
    ts = list(tensors)
    if not ts:
        raise RuntimeError('hstack expects a non-empty TensorList')
    ts = [t if t.a.ndim >= 1 else reshape(t, [1]) for t in ts]
    return cat(ts, 0 if ts[0].a.ndim == 1 else 1)


def vstack(tensors):
    ts = list(tensors)
    if not ts:
        raise RuntimeError('vstack expects a non-empty TensorList')
    ts = [t if t.a.ndim >= 2 else reshape(t, [1, -1]) for t in ts]
    return cat(ts, 0)


def stack(tensors, dim=0):
    tensors = list(tensors)
    try:
        a = _np.stack([x.a for x in tensors], axis=dim)
    except ValueError as e:
        raise RuntimeError('symtorch stack: ' + str(e))
    return _mk(a, tensors[0].dtype, tensors)


def diag(t, diagonal=0):
    if diagonal != 0:
        unsupported('diag offset')
    if t.a.ndim == 1:
        n = t.a.shape[0]
        a = _np.empty((n, n), dtype=object)
        a[...] = 0
        for i in range(n):
            a[i, i] = t.a[i]
        return _mk(a, t.dtype, (t,))
    if t.a.ndim == 2:
        return _mk(_np.diagonal(t.a).copy(), t.dtype, (t,))
    raise RuntimeError('diag: matrix or vector expected')


def diagonal(t, offset=0, dim1=0, dim2=1):
    if offset != 0:
        unsupported('diagonal offset')
    n = _py_min(t.a.shape[dim1], t.a.shape[dim2])
    # numpy returns a read-only view for object arrays as well: build explicitly (copy)
    idx = [slice(None)] * t.a.ndim
    outs = []
    for i in range(n):
        idx[dim1] = i
        idx[dim2] = i
        outs.append(t.a[tuple(idx)])
    if outs:
        a = _np.stack(outs, axis=-1)
    else:
        shp = [s for k, s in enumerate(t.a.shape) if k not in (dim1 % t.a.ndim, dim2 % t.a.ndim)] + [0]
        a = _np.empty(shp, dtype=object)
    return _mk(a, t.dtype, (t,))


def conj(t):
    if not t.dtype.is_complex:
        return _mk(t.a, t.dtype, (t,), view=True)
    f = _np.frompyfunc(lambda v: v.conjugate() if hasattr(v, 'conjugate') else v, 1, 1)
    a = f(t.a) if t.a.size else t.a.copy()
    if not _isinstance(a, _np.ndarray):
        a = _objarr(a)
    r = _mk(a, t.dtype, (t,))
    r._conjbit = not t._conjbit
    return r


def clone(t):
    return t.clone()


def abs(t):  # noqa: A001
    f = _np.frompyfunc(lambda v: _py_abs(v), 1, 1)
    a = f(t.a) if t.a.size else t.a.copy()
    if not _isinstance(a, _np.ndarray):
        a = _objarr(a)
    dt = t.dtype
    if dt.is_complex:
        dt = float64 if dt.bits == 128 else float32
    return _mk(a, dt, (t,))


def _sgn_scalar(v):
    if hasattr(v, 're') and hasattr(v, 'im'):
        if (v.re == 0) and (v.im == 0):
            return 0
        if v.im == 0:
            return _sgn_scalar(v.re)
        unsupported('sgn of a complex number with non-zero imaginary part')
    if _isinstance(v, complex):
        return 0 if v == 0 else v / _py_abs(v)
    if v > 0:
        return 1
    if v < 0:
        return -1
    return 0


def sgn(t):
    f = _np.frompyfunc(_sgn_scalar, 1, 1)
    a = f(t.a) if t.a.size else t.a.copy()
    if not _isinstance(a, _np.ndarray):
        a = _objarr(a)
    return _mk(a, t.dtype, (t,))


def sign(t):
    if t.dtype.is_complex:
        raise RuntimeError('Unlike NumPy, torch.sign is not intended to support complex numbers. Please use torch.sgn instead.')
    return sgn(t)


def _sqrt_scalar(v):
    if hasattr(v, 'sqrt'):
        return v.sqrt()
    if _isinstance(v, (int, _py_float, Fraction)):
        if v < 0:
            unsupported('sqrt of negative number')
        if v == 0 or v == 1:
            return v
        import math
        if _isinstance(v, _py_float):
            return math.sqrt(v)      # a double computed by the code under test: kept as the double it is
        r = math.isqrt(int(v)) if _isinstance(v, int) else None
        if r is not None and r * r == v:
            return r
        if SCALAR_MODE == 'A':
            from . import apoly
            return apoly.sqrt(Fraction(v))
        return _sc.zsqrt(Z.lift(v)) if _SQRT_HOOK is None else _SQRT_HOOK(v)
    unsupported('sqrt of %s' % type(v).__name__)


_SQRT_HOOK = None
SCALAR_MODE = 'Z'


def sqrt(t):
    if not _isinstance(t, Tensor):
        return _sqrt_scalar(t)
    f = _np.frompyfunc(_sqrt_scalar, 1, 1)
    a = f(t.a) if t.a.size else t.a.copy()
    if not _isinstance(a, _np.ndarray):
        a = _objarr(a)
    dt = t.dtype if t.dtype.cat >= 2 else _default_dtype
    return _mk(a, dt, (t,))


def sum(t, dim=None, keepdim=False, axis=None):  # noqa: A001
    if axis is not None:
        dim = axis
    if t.dtype.cat == 0 and dim is None:
        # number of true entries (symbolic entries are decided by the explorer, one fork per entry)
        n_true = 0
        for v in t.a.flat:
            if _py_bool(v):
                n_true += 1
        return Tensor(_objarr(n_true), int64)
    if dim is None:
        a = _np.sum(t.a) if t.a.size else 0
        return _mk(_objarr(a), t.dtype if t.dtype.cat else int64, (t,))
    if _isinstance(dim, (list, tuple)):
        dims = tuple(int(d) for d in dim)
    else:
        dims = (int(dim),)
    nd = t.a.ndim
    for d in dims:
        if not -_py_max(nd, 1) <= d < _py_max(nd, 1):
            raise IndexError('Dimension out of range')
    if nd == 0:
        return _mk(t.a.copy(), t.dtype, (t,))
    a = _np.sum(t.a, axis=dims, keepdims=keepdim)
    if not _isinstance(a, _np.ndarray):
        a = _objarr(a)
    return _mk(a, t.dtype if t.dtype.cat else int64, (t,))


def cumsum(t, dim, dtype=None):
    dim = int(dim)
    if t.a.ndim == 0:
        return _mk(t.a.copy(), t.dtype if t.dtype.cat >= 1 else int64, (t,))
    a = _np.cumsum(t.a, axis=dim) if t.a.size else t.a.copy()
    return _mk(a if _isinstance(a, _np.ndarray) else _objarr(a), t.dtype if t.dtype.cat >= 1 else int64, (t,))


def prod(t, dim=None, dtype=None):
    if dim is not None:
        unsupported('prod over dim')
    r = 1
    for v in t.a.flat:
        r = r * v
    return _mk(_objarr(r), dtype or t.dtype, (t,))


def _check_same_dtype(ops, what):
    d0 = ops[0].dtype
    for o in ops[1:]:
        if o.dtype is not d0:
            raise RuntimeError('%s: expected all operands to have the same dtype, got %s and %s' % (what, d0, o.dtype))


def einsum(eq, *ops):
    if len(ops) == 1 and _isinstance(ops[0], (list, tuple)):
        ops = tuple(ops[0])
    for o in ops:
        if not _isinstance(o, Tensor):
            raise TypeError('einsum(): operands must be tensors')
    eq = eq.replace(' ', '')
    lhs = eq.split('->')[0].split(',')
    if len(lhs) != len(ops):
        raise RuntimeError('einsum(): more operands were provided than specified in the equation')
    for term, o in zip(lhs, ops):
        nlet = len(term.replace('...', ''))
        if '...' in term:
            if o.a.ndim < nlet:
                raise RuntimeError('einsum(): subscript has more dims than operand')
        elif nlet != o.a.ndim:
            raise RuntimeError('einsum(): the number of subscripts in the equation (%d) does not match the number of dimensions (%d) for operand' % (nlet, o.a.ndim))
    if len(ops) > 1:
        # torch computes multi-operand einsum through bmm: mixed dtypes are rejected
        d0 = ops[0].dtype
        for o in ops[1:]:
            if o.dtype is not d0:
                contracted = _einsum_has_contraction(eq)
                if contracted:
                    raise RuntimeError('einsum: expected scalar type %s but found %s' % (d0, o.dtype))
    dt = ops[0].dtype
    for o in ops[1:]:
        dt = promote_types(dt, o.dtype)
    try:
        a = _np.einsum(eq, *[o.a for o in ops])
    except ValueError as e:
        raise RuntimeError('symtorch einsum: ' + str(e))
    if not _isinstance(a, _np.ndarray):
        a = _objarr(a)
    if a.dtype != object:
        a = a.astype(object)
    return _mk(a, dt, ops)


def _einsum_has_contraction(eq):
    if '->' in eq:
        l, r = eq.split('->')
    else:
        return True
    letters = set(l.replace(',', '').replace('.', ''))
    return _py_any(c not in r for c in letters)


def tensordot(a, b, dims=2):
    if a.dtype is not b.dtype:
        raise RuntimeError('tensordot: both inputs should have same dtype')
    if _isinstance(dims, int):
        ax = dims
    else:
        ax = (list(dims[0]), list(dims[1]))
        if len(ax[0]) != len(ax[1]):
            raise RuntimeError('tensordot: both dimension lists should have same length')
        for i, j in zip(*ax):
            if not (-a.a.ndim <= i < a.a.ndim) or not (-b.a.ndim <= j < b.a.ndim):
                raise IndexError('Dimension out of range')
            if a.a.shape[i] != b.a.shape[j]:
                raise RuntimeError('contracted dimensions need to match, but first has size %d in dim %d and second has size %d in dim %d' % (a.a.shape[i], i, b.a.shape[j], j))
    try:
        r = _np.tensordot(a.a, b.a, axes=ax)
    except ValueError as e:
        raise RuntimeError('symtorch tensordot: ' + str(e))
    if not _isinstance(r, _np.ndarray):
        r = _objarr(r)
    return _mk(r, a.dtype, (a, b))


def matmul(a, b):
    if not _isinstance(a, Tensor) or not _isinstance(b, Tensor):
        raise TypeError('matmul(): arguments must be tensors')
    if a.dtype is not b.dtype:
        raise RuntimeError('expected m1 and m2 to have the same dtype, but got: %s != %s' % (a.dtype, b.dtype))
    if a.a.ndim == 0 or b.a.ndim == 0:
        raise RuntimeError('both arguments to matmul need to be at least 1D')
    try:
        if a.a.size == 0 or b.a.size == 0:
            r = _np.matmul(_np.zeros(a.a.shape), _np.zeros(b.a.shape)).astype(object)
            r[...] = 0
        else:
            r = _np.matmul(a.a, b.a)
    except ValueError as e:
        raise RuntimeError('symtorch matmul: ' + str(e))
    if not _isinstance(r, _np.ndarray):
        r = _objarr(r)
    return _mk(r, a.dtype, (a, b))


mm = matmul


def kron(a, b):
    if not _isinstance(a, Tensor) or not _isinstance(b, Tensor):
        raise TypeError('kron(): arguments must be tensors')
    nd = _py_max(a.a.ndim, b.a.ndim)
    aa = a.a.reshape((1,) * (nd - a.a.ndim) + a.a.shape)
    bb = b.a.reshape((1,) * (nd - b.a.ndim) + b.a.shape)
    shp = tuple(x * y for x, y in zip(aa.shape, bb.shape))
    r = _np.empty(shp, dtype=object)
    for ia in _np.ndindex(*aa.shape):
        for ib in _np.ndindex(*bb.shape):
            r[tuple(i * n + j for i, j, n in zip(ia, ib, bb.shape))] = aa[ia] * bb[ib]
    return _mk(r, _result_dtype(a, b), (a, b))


def outer(a, b):
    return einsum('i,j->ij', a, b)


def dot(a, b):
    return einsum('i,i->', a, b)


def _close_scalar(x, y, rtol, atol):
    if _isinstance(x, (C, _py_complex)) or _isinstance(y, (C, _py_complex)):
        return _close_scalar(_sc.re_part(x), _sc.re_part(y), rtol, atol) & _close_scalar(_sc.im_part(x), _sc.im_part(y), rtol, atol)     # (sufficient for the solver to see both sides)
    t = atol + rtol * _py_abs(y)
    d = x - y
    return (d <= t) & (d >= -t)


def isclose(a, b, rtol=1e-05, atol=1e-08, equal_nan=False):
    aa, bb = _np.broadcast_arrays(a.a, b.a)
    r = _np.empty(aa.shape, dtype=object)
    for ix in _np.ndindex(*aa.shape):
        r[ix] = _close_scalar(aa[ix], bb[ix], Fraction(rtol).limit_denominator(10**30), Fraction(atol).limit_denominator(10**30))
    return Tensor(r, bool_)


def allclose(a, b, rtol=1e-05, atol=1e-08, equal_nan=False):
    if a.dtype is not b.dtype:
        raise RuntimeError('%s did not match %s' % (a.dtype, b.dtype))
    c = isclose(a, b, rtol, atol)
    ok = True
    for v in c.a.flat:
        ok = ok & v
    return _py_bool(ok)


def equal(a, b):
    """torch.equal: same shape and all entries equal (symbolic comparisons are decided by the explorer)"""
    if a.a.shape != b.a.shape:
        return False
    for x, y in zip(a.a.flat, b.a.flat):
        if not _py_bool(x == y):
            return False
    return True


def isnan(t):
    return Tensor(_np.frompyfunc(lambda v: False, 1, 1)(t.a), bool_)


def any(t):  # noqa: A001
    # numbers count as true when they are non-zero (a symbolic entry is decided by the explorer)
    r = False
    for v in t.a.flat:
        if _py_bool(v != 0 if t.dtype.cat > 0 else v):
            r = True
    return r


def real(t):
    f = _np.frompyfunc(_sc.re_part, 1, 1)
    dt = t.dtype
    if dt.is_complex:
        dt = float64 if dt.bits == 128 else float32
    return _mk(f(t.a), dt, (t,))


def imag(t):
    f = _np.frompyfunc(_sc.im_part, 1, 1)
    dt = float64 if t.dtype.bits == 128 else float32
    return _mk(f(t.a), dt, (t,))


# --------------------------------------------------------------------------- nn.functional
def _pad(t, pad, mode='constant', value=0):
    pad = [int(p) for p in pad]
    if _isinstance(value, Tensor):
        if value.a.size != 1:
            raise RuntimeError('pad: value must be a number or a one-element tensor')
        value = value.a.reshape(())[()]
    if len(pad) % 2 != 0 or len(pad) // 2 > t.a.ndim:
        raise RuntimeError('Padding length must be divisible by 2 and at most twice the number of dimensions')
    if value is None:
        value = 0
    widths = [(0, 0)] * t.a.ndim
    for i in range(len(pad) // 2):
        widths[t.a.ndim - 1 - i] = (pad[2 * i], pad[2 * i + 1])
    if _py_any(w < 0 for p in widths for w in p):
        unsupported('negative padding')
    shp = tuple(s + w[0] + w[1] for s, w in zip(t.a.shape, widths))
    a = _np.empty(shp, dtype=object)
    a[...] = _pyify(value)
    sl = tuple(slice(w[0], w[0] + s) for s, w in zip(t.a.shape, widths))
    a[sl] = t.a
    return _mk(a, t.dtype, (t,))


functional = types.ModuleType('torch.nn.functional')
functional.pad = _pad


# --------------------------------------------------------------------------- linalg
class _Linalg(types.ModuleType):
    def __getattr__(self, name):
        known = _names().get('linalg')
        if known is not None and name not in known:
            raise AttributeError("module 'torch.linalg' has no attribute '%s'" % name)

        def f(*a, **k):
            unsupported('torch.linalg.' + name)
        return f


linalg = _Linalg('torch.linalg')


def _norm(t, ord=None, dim=None):
    if ord is not None or dim is not None:
        unsupported('linalg.norm with ord/dim')
    s = 0
    for v in t.a.flat:
        if _isinstance(v, (C, _py_complex)):
            s = s + _sc.re_part(v) * _sc.re_part(v) + _sc.im_part(v) * _sc.im_part(v)
        else:
            s = s + v * v
    dt = t.dtype
    if dt.is_complex:
        dt = float64 if dt.bits == 128 else float32
    if dt.cat < 2:
        raise RuntimeError('linalg.norm: expected floating point or complex tensor')
    return _mk(_objarr(_sqrt_scalar(s)), dt, (t,))


linalg.norm = _norm


def norm(t, p=None):
    return _norm(t)


def _qr(t, mode='reduced'):
    from . import factor
    return factor.qr(t)


def _svd(t, full_matrices=True):
    from . import factor
    return factor.svd(t, full_matrices)


def _solve(A, b):
    from . import factor
    return factor.solve(A, b)


def _inv(A):
    from . import factor
    if A.a.ndim < 2 or A.a.shape[-1] != A.a.shape[-2]:
        raise RuntimeError('linalg.inv: A must be batches of square matrices')
    if factor.MODE == 'havoc':
        factor.STATS['havoc'] += 1
        return _fresh_tensor(A.a.shape, A.dtype, 'inv')
    unsupported('linalg.inv (exact)')


linalg.inv = _inv
inverse = _inv
linalg.qr = _qr
linalg.svd = _svd
linalg.solve = _solve


# --------------------------------------------------------------------------- save / load (in-memory stub)
_STORE = {}


class UnpicklingError(Exception):
    pass


def _scan_weights_only(obj):
    if _isinstance(obj, _np.generic):
        raise UnpicklingError('Weights only load failed: Unsupported global: numpy scalar (%s)' % type(obj).__name__)
    if _isinstance(obj, dict):
        for k, v in obj.items():
            _scan_weights_only(k)
            _scan_weights_only(v)
    elif _isinstance(obj, (list, tuple)):
        for v in obj:
            _scan_weights_only(v)
    elif _isinstance(obj, (Tensor, str, int, _py_float, _py_bool, type(None), _py_complex, dtype)):
        return          # (torch.dtype objects are on torch's allow-list for weights_only loads)
    elif _isinstance(obj, (Z, C, SymInt)):
        return
    else:
        raise UnpicklingError('Weights only load failed: Unsupported class %s' % type(obj).__name__)


def _deep(obj):
    if _isinstance(obj, Tensor):
        t = Tensor(obj.a.copy(), obj.dtype)
        t._conjbit = obj._conjbit
        return t
    if _isinstance(obj, dict):
        return {k: _deep(v) for k, v in obj.items()}
    if _isinstance(obj, list):
        return [_deep(v) for v in obj]
    if _isinstance(obj, tuple):
        return tuple(_deep(v) for v in obj)
    return obj


_MAPPED = set()          # paths of which some loaded object is a memory map


def _flat_tensors(obj, out):
    if _isinstance(obj, Tensor):
        out.append(obj)
    elif _isinstance(obj, dict):
        for v in obj.values():
            _flat_tensors(v, out)
    elif _isinstance(obj, (list, tuple)):
        for v in obj:
            _flat_tensors(v, out)
    return out


def _alias(obj):
    # memory-mapped load: the tensors are windows on the stored bytes
    if _isinstance(obj, Tensor):
        t = Tensor(obj.a, obj.dtype)
        t._conjbit = obj._conjbit
        return t
    if _isinstance(obj, dict):
        return {k: _alias(v) for k, v in obj.items()}
    if _isinstance(obj, list):
        return [_alias(v) for v in obj]
    if _isinstance(obj, tuple):
        return tuple(_alias(v) for v in obj)
    return obj


def save(obj, path):
    new = _deep(obj)
    key = str(path)
    if key in _MAPPED and key in _STORE:
        # the file is rewritten while maps of it are alive: the bytes under the maps change.  Modelled for files of the same layout
        # (same tensors in the same order); anything else is outside the model
        old_t, new_t = _flat_tensors(_STORE[key], []), _flat_tensors(new, [])
        if len(old_t) != len(new_t) or _py_any(a.a.shape != b.a.shape or a.dtype is not b.dtype for a, b in zip(old_t, new_t)):
            unsupported('a memory-mapped file is overwritten with another layout')
        for a, b in zip(old_t, new_t):
            a.a[...] = b.a
        return
    _STORE[key] = new


def load(path, map_location=None, weights_only=True, mmap=None):
    if str(path) not in _STORE:
        raise FileNotFoundError(path)
    obj = _STORE[str(path)]
    if weights_only:
        _scan_weights_only(obj)
    if mmap:
        _MAPPED.add(str(path))
        return _alias(obj)
    return _deep(obj)


# --------------------------------------------------------------------------- nn
class Parameter(Tensor):
    def __init__(self, data, requires_grad=True):
        if not _isinstance(data, Tensor):
            raise TypeError('Parameter data must be a Tensor')
        Tensor.__init__(self, data.a, data.dtype)
        self.requires_grad = requires_grad


class Module:
    def __init__(self):
        object.__setattr__(self, '_parameters', {})
        object.__setattr__(self, '_modules', {})
        object.__setattr__(self, 'training', True)

    def train(self, mode=True):
        object.__setattr__(self, 'training', _py_bool(mode))
        for m in self._modules.values():
            m.train(mode)
        return self

    def eval(self):
        return self.train(False)

    def state_dict(self):
        return {k: p.detach().clone() for k, p in self.named_parameters()}

    def _convert(self, dt):
        # torch converts the floating-point parameters in place (the Parameter objects keep their identity)
        for p_ in self.parameters():
            if p_.dtype.cat >= 2 and p_.dtype is not dt:
                c = _cast(p_.detach(), dt)
                p_.a = c.a
                p_.dtype = dt
        return self

    def double(self):
        return self._convert(float64)

    def float(self):
        return self._convert(float32)

    def half(self):
        unsupported('Module.half')

    def to(self, *args, **kw):
        dt = kw.get('dtype', None)
        for x in args:
            if _isinstance(x, dtype):
                dt = x
        if dt is not None:
            if dt.cat < 2:
                raise TypeError('nn.Module.to only accepts floating point or complex dtypes')
            self._convert(dt)
        return self

    def load_state_dict(self, sd, strict=True):
        own = dict(self.named_parameters())
        if strict and set(own) != set(sd):
            raise RuntimeError('Error(s) in loading state_dict: key mismatch')
        with no_grad():
            for k, v in sd.items():
                if k in own:
                    own[k].copy_(v)
        return None

    def __setattr__(self, k, v):
        if _isinstance(v, Parameter):
            self._parameters[k] = v
        elif _isinstance(v, Module):
            self._modules[k] = v
        object.__setattr__(self, k, v)

    def parameters(self):
        for p in self._parameters.values():
            yield p
        for m in self._modules.values():
            for p in m.parameters():
                yield p

    def named_parameters(self, prefix=''):
        for k, p in self._parameters.items():
            yield prefix + k, p
        for mk, m in self._modules.items():
            for k, p in m.named_parameters(prefix + mk + '.'):
                yield k, p

    def __call__(self, *a, **k):
        return self.forward(*a, **k)


class ParameterList(Module):
    def __init__(self, params=None):
        Module.__init__(self)
        object.__setattr__(self, '_list', [])
        for p in (params or []):
            self.append(p)

    def append(self, p):
        if not _isinstance(p, Parameter):
            p = Parameter(p)
        self._parameters[str(len(self._list))] = p
        self._list.append(p)

    def __iter__(self):
        return iter(self._list)

    def __len__(self):
        return len(self._list)

    def __getitem__(self, i):
        return self._list[i]

    def __setitem__(self, i, p):
        if not _isinstance(p, Parameter):
            p = Parameter(p)
        i = int(i)
        if i < 0:
            i += len(self._list)
        self._list[i] = p
        self._parameters[str(i)] = p


nn = types.ModuleType('torch.nn')
nn.Module = Module
nn.Parameter = Parameter
nn.ParameterList = ParameterList
nn.functional = functional

jit = types.ModuleType('torch.jit')
jit.export = lambda f: f
jit.script = lambda f: f


_GRAD_MODE = [True]


class _NoGrad:
    def __enter__(self):
        self.prev = _GRAD_MODE[0]
        _GRAD_MODE[0] = False
        return self

    def __exit__(self, *a):
        _GRAD_MODE[0] = self.prev
        return False


def no_grad():
    return _NoGrad()


def is_grad_enabled():
    return _GRAD_MODE[0]


class set_grad_enabled:
    """torch.set_grad_enabled: takes effect at once (function form) and restores the previous mode on exit (context-manager form)"""

    def __init__(self, mode):
        self.prev = _GRAD_MODE[0]
        _GRAD_MODE[0] = True if mode else False

    def __enter__(self):
        return self

    def __exit__(self, *a):
        _GRAD_MODE[0] = self.prev
        return False


def enable_grad():
    return set_grad_enabled(True)


# opt_einsum stand-in
oe = types.ModuleType('opt_einsum')
oe.contract = lambda eq, *ops, **k: einsum(eq, *ops)

cuda = types.ModuleType('torch.cuda')
cuda.is_available = lambda: False

__version__ = 'symtorch'


_NAMES = None


def _names():
    global _NAMES
    if _NAMES is None:
        import json
        import os
        try:
            _NAMES = json.load(open(os.path.join(os.path.dirname(__file__), '_torch_names.json')))
        except Exception:
            _NAMES = {}
    return _NAMES


def __getattr__(name):
    if name.startswith('__'):
        raise AttributeError(name)
    known = _names().get('torch')
    if known is not None and name not in known:
        raise AttributeError("module 'torch' has no attribute '%s'" % name)

    def f(*a, **k):
        unsupported('torch.' + name)
    return f
