"""Real-torch environment: runs the same scenarios against /repo's code under /venv/bin/python.

Used (a) to replay solver counterexamples before they are reported and (b) for translator
validation of the symbolic torch model.  Must not import z3 / tv.explorer.
"""
import sys
import os
from fractions import Fraction

from .values import seeded_fraction, seeded_int


class AssumeFailed(Exception):
    pass


class RealEnv:
    mode = 'real'

    def __init__(self, inputs=None, seed=None, rtol=1e-10):
        import torch
        import numpy
        import torchtt
        self.tn = torch
        self.np = numpy
        self.tt = torchtt
        self.given = inputs
        self.seed = seed
        self.rtol = rtol
        self.results = []
        self.outputs = []
        self.notes = {}

    def dt(self, name):
        return getattr(self.tn, name)

    def dtname(self, t):
        return str(t.dtype).replace('torch.', '')

    def note(self, k, v):
        self.notes[k] = v

    def cconst(self, re, im):
        return complex(float(re), float(im))

    # -- inputs
    @staticmethod
    def _f(v):
        return float(Fraction(int(v[0]), int(v[1])))

    def _values(self, name, shape, dtype):
        n = 1
        for s in shape:
            n *= s
        cplx = dtype.startswith('complex')
        if self.given is not None:
            vals = self.given[name]['values']
            if cplx:
                flat = [complex(self._f(v[0]), self._f(v[1])) for v in vals]
            else:
                flat = [self._f(v) for v in vals]
        else:
            if cplx:
                flat = [complex(float(seeded_fraction(self.seed, name + '.re', k)),
                                float(seeded_fraction(self.seed, name + '.im', k))) for k in range(n)]
            else:
                flat = [float(seeded_fraction(self.seed, name, k)) for k in range(n)]
        return flat

    def tensor(self, name, shape, dtype='float64'):
        flat = self._values(name, shape, dtype)
        return self.tn.tensor(flat, dtype=self.dt(dtype)).reshape(list(shape))

    def nparray(self, name, shape, dtype='float64'):
        flat = self._values(name, shape, dtype)
        return self.np.array(flat, dtype=dtype).reshape(list(shape))

    def itensor(self, name, shape, lo, hi):
        n = 1
        for s in shape:
            n *= s
        if self.given is not None:
            flat = [int(Fraction(int(v[0]), int(v[1]))) for v in self.given[name]['values']]
        else:
            flat = [seeded_int(self.seed, name, k, lo, hi) for k in range(n)]
        return self.tn.tensor(flat, dtype=self.tn.int64).reshape(list(shape))

    def int(self, name, lo, hi):
        if self.given is not None:
            v = self.given[name]['values']
            return int(Fraction(int(v[0]), int(v[1])))
        return seeded_int(self.seed, name, 0, lo, hi)

    def scalar(self, name, kind='float', dtype='float64'):
        if kind == 'complex':
            if self.given is not None:
                v = self.given[name]['values']
                return complex(self._f(v[0]), self._f(v[1]))
            return complex(float(seeded_fraction(self.seed, name + '.re', 0)), float(seeded_fraction(self.seed, name + '.im', 0)))
        if self.given is not None:
            v = self._f(self.given[name]['values'])
        else:
            v = float(seeded_fraction(self.seed, name, 0))
        if kind == 'npfloat':
            return self.np.float64(v)
        if kind == 'npfloat32':
            return self.np.float32(v)
        if kind == 'npint':
            if self.given is None:
                v = int(seeded_fraction(self.seed, name, 0) * 8)
            return self.np.int64(int(round(v)))
        if kind == 'tensor0':
            return self.tn.tensor(v, dtype=self.dt(dtype))
        if kind == 'tensor1':
            return self.tn.tensor([v], dtype=self.dt(dtype))
        return v

    def pos_tensor(self, name, shape, pattern, dtype='float64', source='torch', phase_idx=None):
        n = 1
        for x in shape:
            n *= x
        if self.given is not None:
            if dtype.startswith('complex'):
                flat = [complex(self._f(v[0]), self._f(v[1])) if isinstance(v[0], (list, tuple)) else self._f(v) for v in self.given[name]['values']]
            else:
                flat = [self._f(v) for v in self.given[name]['values']]
            t = self.tn.tensor(flat, dtype=self.dt(dtype)).reshape(list(shape))
        else:
            from .values import PHASES
            t = self.tn.zeros(list(shape), dtype=self.dt(dtype))
            for k, ix in enumerate(pattern):
                m = abs(float(seeded_fraction(self.seed, name, k)))
                if dtype.startswith('complex'):
                    c, s_ = PHASES[(phase_idx[k] if phase_idx else k) % len(PHASES)]
                    t[tuple(ix)] = complex(m * float(c), m * float(s_))
                else:
                    t[tuple(ix)] = m
        if source == 'numpy':
            return t.numpy().copy()
        return t

    def pos_scalar(self, name, lo=None, hi=None):
        if self.given is not None:
            return self._f(self.given[name]['values'])
        f = abs(float(seeded_fraction(self.seed, name, 0)))
        if hi is not None:
            f = f * hi / 4
        return f

    def grad_of(self, scalar, leaf):
        g = self.tn.autograd.grad(scalar.reshape([]), leaf, retain_graph=True, allow_unused=True)[0]
        return g if g is not None else self.tn.zeros_like(leaf)

    def dim(self, name, lo=1, hi=4):
        if self.given is not None:
            v = self.given[name]['values']
            return int(Fraction(int(v[0]), int(v[1])))
        return seeded_int(self.seed, name, 0, lo, hi)

    def stensor(self, name, shape, dtype='float64'):
        g = self.tn.Generator().manual_seed(12345)
        return self.tn.randn([int(x) for x in shape], generator=g, dtype=self.tn.float64).to(self.dt(dtype))

    def internal(self, e):
        return False

    def const_tensor(self, nested, dtype='float64'):
        return self.tn.tensor(nested, dtype=self.dt(dtype))

    def assume(self, cond):
        if not bool(cond):
            raise AssumeFailed()

    # -- checks
    def _t(self, x):
        if self.tn.is_tensor(x):
            return x.detach()
        return self.tn.as_tensor(self.np.asarray(x))

    def eq(self, label, a, b):
        a = self._t(a)
        b = self._t(b)
        if tuple(a.shape) != tuple(b.shape):
            self.results.append({'label': label, 'status': 'violated', 'detail': 'shape %s vs %s' % (list(a.shape), list(b.shape))})
            self.outputs.append({'label': label, 'shape': list(a.shape), 'lhs': []})
            return
        a64 = a.to(self.tn.complex128) if (a.is_complex() or b.is_complex()) else a.to(self.tn.float64)
        b64 = b.to(self.tn.complex128) if (a.is_complex() or b.is_complex()) else b.to(self.tn.float64)
        if a64.numel() == 0:
            err, scale = 0.0, 1.0
        else:
            err = float((a64 - b64).abs().max())
            scale = max(1e-300, float(a64.abs().max()), float(b64.abs().max()))          # relative to the data (a candidate may live at scale 1e-17)
        tol = self.rtol
        if a.dtype in (self.tn.float32, self.tn.complex64) or b.dtype in (self.tn.float32, self.tn.complex64):
            tol = max(tol, 1e-4)
        ok = err <= tol * scale and not (err != err)
        self.results.append({'label': label, 'status': 'ok' if ok else 'violated', 'detail': 'maxerr %.3e scale %.3e' % (err, scale)})
        flat = a64.reshape(-1).tolist()
        self.outputs.append({'label': label, 'shape': list(a.shape),
                             'lhs': [[v.real, v.imag] if isinstance(v, complex) else v for v in flat]})

    def sos_fact(self, t):
        pass

    def sumsq(self, t):
        return self.tn.sum(t * t)

    def lemma(self, label, a, b):
        return self.eq(label, a, b)

    def true(self, label, cond):
        if self.tn.is_tensor(cond):
            cond = bool(cond)
        self.results.append({'label': label, 'status': 'ok' if bool(cond) else 'violated'})
        self.outputs.append({'label': label, 'cond': bool(cond)})

    def fail(self, label, detail):
        self.results.append({'label': label, 'status': 'violated', 'detail': detail})
