"""setup / smoke test: snapshot real torch's public names, import /repo over the shim, one solver query."""
import os
import sys
import json
import subprocess

VERIF = os.path.dirname(os.path.dirname(os.path.abspath(__file__)))


def main():
    out = os.path.join(VERIF, 'tv', '_torch_names.json')
    code = ("import torch, json; json.dump({'torch': sorted(dir(torch)), 'linalg': sorted(dir(torch.linalg)), "
            "'Tensor': sorted(dir(torch.Tensor)), 'functional': sorted(dir(torch.nn.functional)), 'version': torch.__version__}, open(%r, 'w'))" % out)
    subprocess.run(['/venv/bin/python', '-c', code], check=True, stdout=subprocess.DEVNULL, stderr=subprocess.DEVNULL)
    sys.path.insert(0, VERIF)
    from tv import loader
    tt = loader.load()
    import z3
    s = z3.SolverFor('QF_NRA')
    x = z3.Real('x')
    s.add(x * x == 2, x > 0)
    assert s.check() == z3.sat
    os.makedirs(os.path.join(VERIF, 'evidence'), exist_ok=True)
    print('selfcheck ok: torchtt from %s, z3 %s' % (tt.__file__, z3.get_version_string()))


if __name__ == '__main__':
    main()
