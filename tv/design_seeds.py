"""rewrite the seeded-changes table of DESIGN.md from /verif/seeded/*/meta.json"""
import os
import json
import glob

VERIF = os.path.dirname(os.path.dirname(os.path.abspath(__file__)))


def main():
    rows = ['| seed | what it changes (author\'s words, shortened) | confirmed (tests pass / demo fails) | caught by | note |', '|---|---|---|---|---|']
    summ = json.load(open(os.path.join(VERIF, 'seeded', 'SUMMARIES.json')))
    notes = json.load(open(os.path.join(VERIF, 'seeded', 'NOTES.json')))
    for d in sorted(glob.glob(os.path.join(VERIF, 'seeded', '*'))):
        mp = os.path.join(d, 'meta.json')
        if not os.path.exists(mp):
            continue
        m = json.load(open(mp))
        sigs = []
        for c in m.get('caught_by', []):
            s = m['checks'][c]['signatures'][:2]
            sigs.append('%s (%s)' % (c, '; '.join(x.replace('signature: ', '') for x in s)))
        missed = [c for c, r in m.get('checks', {}).items() if not (r['rc'] == 1 and r['violations'])]
        rows.append('| %s | %s | %s | %s | %s |' % (os.path.basename(d), summ.get(os.path.basename(d), m.get('summary', '')), 'yes' if m.get('confirmed') else 'NO: ' + str(m.get('testsuite_with_change')),
                                                 '<br>'.join(sigs) or '—', notes.get(os.path.basename(d), m.get('note', ('not reported by: ' + ', '.join(missed)) if missed else ''))))
    p = os.path.join(VERIF, 'DESIGN.md')
    s = open(p).read()
    kf = json.load(open(os.path.join(VERIF, 'known_findings.json')))
    fr = ['%d defects repaired (one `fix:` commit each):' % sum(1 for f in kf['findings'] if f['status'] == 'fixed'), '', '| property | defect (failing input) | fix commit |', '|---|---|---|']
    for f in kf['findings']:
        if f['status'] == 'fixed':
            fr.append('| %s | %s | %s |' % (f['property'], f['what'].replace('|', '/'), f.get('commit', '')))
    a = s.index('<!-- FIXED-TABLE-BEGIN -->') + len('<!-- FIXED-TABLE-BEGIN -->')
    b = s.index('<!-- FIXED-TABLE-END -->')
    s = s[:a] + '\n' + '\n'.join(fr) + '\n' + s[b:]
    a = s.index('<!-- SEEDED-TABLE-BEGIN -->') + len('<!-- SEEDED-TABLE-BEGIN -->')
    b = s.index('<!-- SEEDED-TABLE-END -->')
    s = s[:a] + '\n' + '\n'.join(rows) + '\n' + s[b:]
    open(p, 'w').write(s)
    print('\n'.join(rows))


if __name__ == '__main__':
    main()
