"""shapetorch: shape-level model of the torch API used by torchtt (S-level, DESIGN 2.3).

Tensors carry no data: only a shape (python ints or symbolic dimension polynomials, tv.apoly.P of kind 'dim')
and a dtype tag.  Every operation computes its result shape symbolically and raises the error torch would raise
(size mismatch after broadcasting, einsum/reshape/index errors, mixed dtypes in contractions).  Equalities between
dimensions are decided syntactically after polynomial normalisation where possible, otherwise by the explorer
(solver-decided branch).
"""
import types
import numbers
import builtins as _b
from fractions import Fraction
import numpy as _np
import z3

from .explorer import SymBool, cur, active, unsupported, Unsupported
from . import apoly as A
from . import symtorch as _st
from .symtorch import (dtype, bool_, int32, int64, float32, float64, complex64, complex128, double, long, cfloat, cdouble,
                       promote_types, Size, device, _CPU, Module, Parameter as _VParameter, ParameterList as _VParameterList,
                       jit, oe as _oe, cuda, UnpicklingError)

float = float32  # noqa: A001
bool = bool_     # noqa: A001
_isinstance = isinstance
_default_dtype = float32
HAVOC_RANK = True


def _n(d):
    """normalise a dimension: constant polynomials -> int"""
    if _isinstance(d, A.P):
        if d.is_const():
            c = d.const_value()
            if c.denominator != 1:
                raise RuntimeError('non-integer dimension')
            return int(c)
        return d
    if _isinstance(d, Tensor):
        unsupported('tensor used as a dimension at shape level')
    if _isinstance(d, (_b.bool, _np.bool_)):
        raise TypeError('bool dimension')
    if _isinstance(d, (int, _np.integer)):
        return int(d)
    if _isinstance(d, _b.float) and d == int(d):
        raise TypeError('float dimension')
    raise TypeError('invalid dimension of type %s' % type(d).__name__)


def deq(a, b):
    a, b = _n(a), _n(b)
    if _isinstance(a, int) and _isinstance(b, int):
        return a == b
    return _b.bool(a == b)


def dlt(a, b):
    return _b.bool(a < b)


def dle(a, b):
    return _b.bool(a <= b)


def dprod(dims):
    r = 1
    for d in dims:
        r = r * d
    return _n(r)


def _nonneg(d):
    d = _n(d)
    if _isinstance(d, int):
        if d < 0:
            raise RuntimeError('negative dimension')
    else:
        if not (d >= 0):
            raise RuntimeError('negative dimension')
    return d


def broadcast(s1, s2):
    out = []
    l1, l2 = len(s1), len(s2)
    for i in range(max(l1, l2)):
        a = s1[l1 - 1 - i] if i < l1 else 1
        b = s2[l2 - 1 - i] if i < l2 else 1
        if deq(a, b):
            out.append(a)
        elif deq(a, 1):
            out.append(b)
        elif deq(b, 1):
            out.append(a)
        else:
            raise RuntimeError('The size of tensor a must match the size of tensor b at non-singleton dimension %d' % (max(l1, l2) - 1 - i))
    return tuple(reversed(out))


def _scalar_cat(v):
    return _st._scalar_cat(v)


class Tensor:
    def __init__(self, shape, dt, requires_grad=False):
        self._shape = tuple(_n(s) for s in shape)
        self.dtype = dt
        self.requires_grad = requires_grad
        self.grad_fn = None
        self.grad = None
        self.is_leaf = True

    @property
    def shape(self):
        return Size(self._shape)

    def size(self, dim=None):
        return self.shape if dim is None else self._shape[dim]

    def dim(self):
        return len(self._shape)

    @property
    def ndim(self):
        return len(self._shape)

    def numel(self):
        return dprod(self._shape)

    nelement = numel

    @property
    def device(self):
        return _CPU

    @property
    def is_cuda(self):
        return False

    def is_complex(self):
        return self.dtype.is_complex

    def __len__(self):
        if not self._shape:
            raise TypeError('len() of a 0-d tensor')
        return int(self._shape[0])

    def __repr__(self):
        return 'shapetensor(%s, %s)' % (list(self._shape), self.dtype)

    def _new(self, shape, dt=None):
        return Tensor(shape, self.dtype if dt is None else dt)

    # conversions
    def item(self):
        if not deq(self.numel(), 1):
            raise RuntimeError('a Tensor with more than one element cannot be converted to Scalar')
        unsupported('value of a shape-level tensor')

    def __bool__(self):
        if not deq(self.numel(), 1):
            raise RuntimeError('Boolean value of Tensor with more than one value is ambiguous')
        # data-dependent control flow under havoc: both outcomes
        return cur().branch(z3.Bool(cur().fresh_name('havoc_bool')))

    def __float__(self):
        unsupported('float() of a shape-level tensor')

    def numpy(self):
        return NDArray(self._shape, self.dtype)

    def cpu(self):
        return self

    def cuda(self, device=None):
        return self

    def to(self, *args, **kw):
        dt = kw.get('dtype', None)
        for x in args:
            if _isinstance(x, dtype):
                dt = x
        return self if dt is None or dt is self.dtype else Tensor(self._shape, dt)

    def detach(self):
        return Tensor(self._shape, self.dtype)

    def clone(self):
        return Tensor(self._shape, self.dtype)

    def contiguous(self):
        return self

    def requires_grad_(self, flag=True):
        self.requires_grad = flag
        return self

    def double(self):
        return self.to(dtype=float64)

    # arithmetic
    def _bin(self, o, div=False):
        if _isinstance(o, Tensor):
            shp = broadcast(self._shape, o._shape)
            dt = _st.promote_types(self.dtype, o.dtype) if (self._shape and o._shape) or (not self._shape and not o._shape) else \
                (_st._dim_vs_zero(self.dtype, o.dtype) if self._shape else _st._dim_vs_zero(o.dtype, self.dtype))
        elif _isinstance(o, (int, _b.float, complex, Fraction, _np.generic, A.P)) or _isinstance(o, numbers.Number):
            shp = self._shape
            sc = _scalar_cat(o) if not _isinstance(o, A.P) else (1 if o.is_int_poly() else 2)
            dt = self.dtype if sc <= self.dtype.cat else {1: int64, 2: _default_dtype, 3: complex64}[sc]
            if sc == 3 and self.dtype.cat == 2:
                dt = complex128 if self.dtype.bits == 64 else complex64
        else:
            return NotImplemented
        if div and dt.cat < 2:
            dt = _default_dtype
        return Tensor(shp, dt)

    def __add__(self, o):
        return self._bin(o)

    __radd__ = __sub__ = __rsub__ = __mul__ = __rmul__ = __add__

    def __truediv__(self, o):
        return self._bin(o, True)

    __rtruediv__ = __truediv__

    def __pow__(self, n):
        return Tensor(self._shape, self.dtype)

    def __neg__(self):
        return Tensor(self._shape, self.dtype)

    def __pos__(self):
        return self

    def __matmul__(self, o):
        return matmul(self, o)

    def _inplace(self, o, div=False):
        r = self._bin(o, div)
        if r is NotImplemented:
            raise TypeError('unsupported operand')
        if len(r._shape) != len(self._shape) or not _b.all(deq(a, b) for a, b in zip(r._shape, self._shape)):
            raise RuntimeError("output with shape doesn't match the broadcast shape")
        if r.dtype.cat > self.dtype.cat:
            raise RuntimeError("result type can't be cast to the desired output type")
        return self

    def __iadd__(self, o):
        return self._inplace(o)

    __isub__ = __imul__ = __iadd__

    def __itruediv__(self, o):
        return self._inplace(o, True)

    def copy_(self, o):
        return self._inplace(o)

    def _cmp(self, o):
        if _isinstance(o, Tensor):
            return Tensor(broadcast(self._shape, o._shape), bool_)
        return Tensor(self._shape, bool_)

    def __eq__(self, o):
        if o is None or _isinstance(o, (str, list, tuple)):
            return False
        return self._cmp(o)

    def __ne__(self, o):
        if o is None or _isinstance(o, (str, list, tuple)):
            return True
        return self._cmp(o)

    __lt__ = __le__ = __gt__ = __ge__ = lambda self, o: self._cmp(o)
    __hash__ = object.__hash__

    # shape ops
    def reshape(self, *shape):
        if len(shape) == 1 and _isinstance(shape[0], (list, tuple)):
            shape = shape[0]
        return reshape(self, shape)

    view = reshape

    def permute(self, *dims):
        if len(dims) == 1 and _isinstance(dims[0], (list, tuple)):
            dims = dims[0]
        return permute(self, dims)

    def t(self):
        if len(self._shape) > 2:
            raise RuntimeError('t() expects a tensor with <= 2 dimensions')
        return Tensor(tuple(reversed(self._shape)), self.dtype)

    @property
    def T(self):
        return Tensor(tuple(reversed(self._shape)), self.dtype)

    def transpose(self, d0, d1):
        s = list(self._shape)
        s[d0], s[d1] = s[d1], s[d0]
        return Tensor(s, self.dtype)

    def squeeze(self, dim=None):
        return squeeze(self, dim)

    def unsqueeze(self, dim):
        return unsqueeze(self, dim)

    def conj(self):
        return self

    def sum(self, dim=None, keepdim=False):
        return sum(self, dim, keepdim)

    def abs(self):
        return abs(self)

    def sqrt(self):
        return Tensor(self._shape, self.dtype if self.dtype.cat >= 2 else _default_dtype)

    def diagonal(self, offset=0, dim1=0, dim2=1):
        return diagonal(self, offset, dim1, dim2)

    def __getitem__(self, key):
        return Tensor(index_shape(self._shape, key), self.dtype)

    def __setitem__(self, key, val):
        tgt = index_shape(self._shape, key)
        if _isinstance(val, Tensor):
            b = broadcast(tgt, val._shape)
            if len(b) != len(tgt) or not _b.all(deq(x, y) for x, y in zip(b, tgt)):
                raise RuntimeError('shape mismatch: value tensor cannot be broadcast to indexing result')

    def __iter__(self):
        for i in range(len(self)):
            yield self[i]

    def __getattr__(self, name):
        if name.startswith('_'):
            raise AttributeError(name)
        known = _st._names().get('Tensor')
        if known is not None and name not in known:
            raise AttributeError("'Tensor' object has no attribute '%s'" % name)
        unsupported('Tensor.' + name + ' (shape level)')


class NDArray:
    """numpy stand-in for shape-level data (only what rank-selection call sites touch)"""

    def __init__(self, shape, dt):
        self.shape = tuple(shape)
        self.tdtype = dt

    @property
    def size(self):
        return dprod(self.shape)

    def __getattr__(self, name):
        if name.startswith('_'):
            raise AttributeError(name)
        unsupported('ndarray.' + name + ' (shape level)')

    def _op(self, o):
        return self

    __mul__ = __rmul__ = __truediv__ = __rtruediv__ = __add__ = __radd__ = __sub__ = __rsub__ = _op

    def _havoc(self, o):
        return cur().branch(z3.Bool(cur().fresh_name('havoc_cmp')))

    __lt__ = __le__ = __gt__ = __ge__ = _havoc


class Parameter(Tensor):
    def __init__(self, data, requires_grad=True):
        Tensor.__init__(self, data._shape, data.dtype, requires_grad)


# ------------------------------------------------------------------ indexing
def _idx_int(v):
    """integer index value: python int or int-like P"""
    if _isinstance(v, (_b.bool, _np.bool_)):
        unsupported('bool index')
    if _isinstance(v, (int, _np.integer)):
        return int(v)
    if _isinstance(v, A.P) and v.is_int_poly():
        return _n(v)
    return None


def slice_len(n, sl):
    """length of range(*sl.indices(n)) for step >= 1 with possibly symbolic n / bounds (explorer branches)"""
    step = 1 if sl.step is None else _idx_int(sl.step)
    if step is None:
        raise TypeError('slice indices must be integers')
    if not _b.bool(step >= 1):
        raise ValueError('step must be greater than zero')
    if sl.start is None:
        start = 0
    else:
        start = _idx_int(sl.start)
        if start is None:
            raise TypeError('slice indices must be integers')
        if _b.bool(start < 0):
            start = start + n
            if _b.bool(start < 0):
                start = 0
        elif _b.bool(start > n):
            start = n
    if sl.stop is None:
        stop = n
    else:
        stop = _idx_int(sl.stop)
        if stop is None:
            raise TypeError('slice indices must be integers')
        if _b.bool(stop < 0):
            stop = stop + n
            if _b.bool(stop < 0):
                stop = 0
        elif _b.bool(stop > n):
            stop = n
    if _b.bool(stop <= start):
        return 0
    span = stop - start
    if _isinstance(step, int) and step == 1:
        return _n(span)
    return _n((span + step - 1) // step)


def index_shape(shape, key):
    if not _isinstance(key, tuple):
        key = (key,)
    n_cons = 0
    n_ell = 0
    for k in key:
        if k is Ellipsis:
            n_ell += 1
        elif k is None:
            pass
        else:
            n_cons += 1
    if n_ell > 1:
        raise IndexError('an index can only have a single ellipsis')
    if n_cons > len(shape):
        raise IndexError('too many indices for tensor of dimension %d' % len(shape))
    out = []
    adv = None
    ax = 0
    for k in key:
        if k is None:
            out.append(1)
        elif k is Ellipsis:
            m = len(shape) - n_cons
            out.extend(shape[ax:ax + m])
            ax += m
        elif _isinstance(k, slice):
            out.append(slice_len(shape[ax], k))
            ax += 1
        elif _isinstance(k, Tensor):
            if k.dtype.cat > 1:
                raise IndexError('tensors used as indices must be long, int, byte or bool tensors')
            if adv is not None:
                unsupported('several advanced indices (shape level)')
            adv = len(out)
            out.extend(k._shape)
            ax += 1
        else:
            iv = _idx_int(k)
            if iv is None:
                raise TypeError('invalid index of type %s' % type(k).__name__)
            n = shape[ax]
            if not (_b.bool(iv >= -n) and _b.bool(iv < n)):
                raise IndexError('index out of range')
            ax += 1
    out.extend(shape[ax:])
    return tuple(out)


# ------------------------------------------------------------------ creation
def _shape_arg(shape):
    if len(shape) == 1 and _isinstance(shape[0], (list, tuple, Size)):
        shape = shape[0]
    return tuple(_nonneg(s) for s in shape)


def ones(*shape, dtype=None, device=None, requires_grad=False):
    return Tensor(_shape_arg(shape), dtype or _default_dtype)


zeros = empty = randn = rand = ones


def ones_like(t, dtype=None, device=None):
    return Tensor(t._shape, dtype or t.dtype)


zeros_like = ones_like


def eye(n, m=None, dtype=None, device=None):
    n = _nonneg(n)
    m = n if m is None else _nonneg(m)
    return Tensor((n, m), dtype or _default_dtype)


def arange(*args, dtype=None, device=None):
    if len(args) == 1:
        return Tensor((_nonneg(args[0]),), dtype or int64)
    unsupported('arange(a, b) at shape level')


def tensor(data, dtype=None, device=None, requires_grad=False):
    if _isinstance(data, Tensor):
        return Tensor(data._shape, dtype or data.dtype)
    if _isinstance(data, NDArray):
        return Tensor(data.shape, dtype or data.tdtype)
    if _isinstance(data, _np.ndarray):
        return Tensor(data.shape, dtype or _st._infer_dtype_from_np(data))
    if _isinstance(data, (list, tuple)):
        shp = _st._nested_shape(list(data))
        flat = _np.array(data, dtype=object).reshape(-1) if shp else [data]
        dt = dtype or (_default_dtype if _b.any(_isinstance(v, _b.float) for v in flat) else int64)
        return Tensor(shp, dt)
    if _isinstance(data, (int, _b.float, complex)) or _isinstance(data, A.P):
        cat = _scalar_cat(data) if not _isinstance(data, A.P) else 1
        return Tensor((), dtype or {0: bool_, 1: int64, 2: _default_dtype, 3: complex64}[cat])
    unsupported('tensor() of %s' % type(data).__name__)


as_tensor = tensor


def is_tensor(x):
    return _isinstance(x, Tensor)


def numel(t):
    return t.numel()


def is_complex(t):
    return t.dtype.is_complex


# ------------------------------------------------------------------ shape functions
def reshape(t, shape):
    shape = list(shape)
    shp = []
    neg = None
    for i, s in enumerate(shape):
        if _isinstance(s, int) and not _isinstance(s, _b.bool) and s == -1:
            if neg is not None:
                raise RuntimeError('only one dimension can be inferred')
            neg = i
            shp.append(None)
        else:
            s = _n(s)
            if _isinstance(s, int):
                if s < 0:
                    raise RuntimeError('invalid shape dimension %d' % s)
            elif not (s >= 0):
                raise RuntimeError('invalid shape dimension')
            shp.append(s)
    total = t.numel()
    if neg is not None:
        known = dprod([s for s in shp if s is not None])
        if deq(known, 0):
            raise RuntimeError('cannot reshape tensor of 0 elements into shape with -1')
        if _isinstance(total, int) and _isinstance(known, int):
            if total % known:
                raise RuntimeError("shape is invalid for input of size %d" % total)
            shp[neg] = total // known
        else:
            r = total % known
            if not deq(r, 0):
                raise RuntimeError('shape is invalid for input size')
            shp[neg] = _n(total // known)
    else:
        if not deq(dprod(shp), total):
            raise RuntimeError("shape '%s' is invalid for input of size %s" % (shp, total))
    return Tensor(shp, t.dtype)


def permute(t, dims):
    dims = [int(d) for d in dims]
    nd = len(t._shape)
    if len(dims) != nd:
        raise RuntimeError('permute: number of dims do not match')
    dd = [d + nd if d < 0 else d for d in dims]
    if sorted(dd) != list(range(nd)):
        raise RuntimeError('permute: repeated / invalid dim')
    return Tensor([t._shape[d] for d in dd], t.dtype)


def t(x):
    return x.t()


def transpose(x, a, b):
    return x.transpose(a, b)


def squeeze(t, dim=None):
    if dim is None:
        return Tensor([s for s in t._shape if not deq(s, 1)], t.dtype)
    nd = len(t._shape)
    if nd == 0:
        if dim not in (0, -1):
            raise IndexError('Dimension out of range')
        return t
    if not -nd <= dim < nd:
        raise IndexError('Dimension out of range')
    dim %= nd
    if deq(t._shape[dim], 1):
        return Tensor(t._shape[:dim] + t._shape[dim + 1:], t.dtype)
    return t


def unsqueeze(t, dim):
    nd = len(t._shape)
    if not -(nd + 1) <= dim <= nd:
        raise IndexError('Dimension out of range')
    if dim < 0:
        dim += nd + 1
    return Tensor(t._shape[:dim] + (1,) + t._shape[dim:], t.dtype)


def tile(t, reps):
    reps = [_nonneg(r) for r in reps]
    shp = list(t._shape)
    while len(shp) < len(reps):
        shp.insert(0, 1)
    while len(reps) < len(shp):
        reps.insert(0, 1)
    return Tensor([_n(a * b) for a, b in zip(shp, reps)], t.dtype)


def cat(tensors, dim=0, axis=None):
    if axis is not None:
        dim = axis
    tensors = list(tensors)
    if not tensors:
        raise RuntimeError('cat expects a non-empty list')
    nd = len(tensors[0]._shape)
    if not -nd <= dim < nd:
        raise IndexError('Dimension out of range')
    dim %= nd
    dt = tensors[0].dtype
    tot = 0
    for x in tensors:
        if len(x._shape) != nd:
            raise RuntimeError('Tensors must have same number of dimensions')
        for i in range(nd):
            if i != dim and not deq(x._shape[i], tensors[0]._shape[i]):
                raise RuntimeError('Sizes of tensors must match except in dimension %d' % dim)
        tot = tot + x._shape[dim]
        dt = _st.promote_types(dt, x.dtype)
    shp = list(tensors[0]._shape)
    shp[dim] = _n(tot)
    return Tensor(shp, dt)


concat = concatenate = cat


def diag(t, diagonal=0):
    if len(t._shape) == 1:
        return Tensor((t._shape[0], t._shape[0]), t.dtype)
    if len(t._shape) == 2:
        a, b = t._shape
        return Tensor((a if dle(a, b) else b,), t.dtype)
    raise RuntimeError('diag: matrix or vector expected')


def diagonal(t, offset=0, dim1=0, dim2=1):
    nd = len(t._shape)
    d1, d2 = dim1 % nd, dim2 % nd
    a, b = t._shape[d1], t._shape[d2]
    m = a if dle(a, b) else b
    return Tensor([s for k, s in enumerate(t._shape) if k not in (d1, d2)] + [m], t.dtype)


def conj(t):
    return t


def clone(t):
    return t.clone()


def abs(t):  # noqa: A001
    dt = t.dtype
    if dt.is_complex:
        dt = float64 if dt.bits == 128 else float32
    return Tensor(t._shape, dt)


def sqrt(t):
    if not _isinstance(t, Tensor):
        unsupported('sqrt of a scalar at shape level')
    return t.sqrt()


def real(t):
    return abs(t)


def sum(t, dim=None, keepdim=False, axis=None):  # noqa: A001
    if axis is not None:
        dim = axis
    if dim is None:
        return Tensor((), t.dtype if t.dtype.cat else int64)
    dims = [int(d) for d in dim] if _isinstance(dim, (list, tuple)) else [int(dim)]
    nd = len(t._shape)
    for d in dims:
        if not -max(nd, 1) <= d < max(nd, 1):
            raise IndexError('Dimension out of range')
    dd = {d % nd for d in dims} if nd else set()
    if keepdim:
        shp = [1 if i in dd else s for i, s in enumerate(t._shape)]
    else:
        shp = [s for i, s in enumerate(t._shape) if i not in dd]
    return Tensor(shp, t.dtype if t.dtype.cat else int64)


def einsum(eq, *ops):
    if len(ops) == 1 and _isinstance(ops[0], (list, tuple)):
        ops = tuple(ops[0])
    eq = eq.replace(' ', '')
    if '->' not in eq:
        unsupported('implicit einsum output')
    lhs, rhs = eq.split('->')
    terms = lhs.split(',')
    if len(terms) != len(ops):
        raise RuntimeError('einsum(): number of operands does not match the equation')
    sizes = {}
    ell = None
    for term, o in zip(terms, ops):
        if not _isinstance(o, Tensor):
            raise TypeError('einsum(): operands must be tensors')
        if '...' in term:
            pre, post = term.split('...')
            ne = len(o._shape) - len(pre) - len(post)
            if ne < 0:
                raise RuntimeError('einsum(): subscript has more dims than operand')
            es = tuple(o._shape[len(pre):len(pre) + ne])
            ell = es if ell is None else broadcast(ell, es)
            letters = list(pre) + [None] * ne + list(post)
        else:
            if len(term) != len(o._shape):
                raise RuntimeError('einsum(): the number of subscripts in the equation (%d) does not match the number of dimensions (%d)' % (len(term), len(o._shape)))
            letters = list(term)
        for ch, s in zip(letters, o._shape):
            if ch is None:
                continue
            if ch in sizes:
                a = sizes[ch]
                if deq(a, s):
                    pass
                elif deq(a, 1):
                    sizes[ch] = s
                elif deq(s, 1):
                    pass
                else:
                    raise RuntimeError('einsum(): operands do not broadcast with remapped shapes [original->remapped]')
            else:
                sizes[ch] = s
    if len(ops) > 1:
        d0 = ops[0].dtype
        for o in ops[1:]:
            if o.dtype is not d0 and _st._einsum_has_contraction(eq):
                raise RuntimeError('einsum: expected scalar type %s but found %s' % (d0, o.dtype))
    out = []
    if '...' in rhs:
        pre, post = rhs.split('...')
        out = [sizes[c] for c in pre] + list(ell or ()) + [sizes[c] for c in post]
    else:
        for c in rhs:
            if c not in sizes:
                raise RuntimeError('einsum(): output subscript %s does not appear in the inputs' % c)
            out.append(sizes[c])
    dt = ops[0].dtype
    for o in ops[1:]:
        dt = _st.promote_types(dt, o.dtype)
    return Tensor(out, dt)


def tensordot(a, b, dims=2):
    if a.dtype is not b.dtype:
        raise RuntimeError('tensordot: both inputs should have same dtype')
    if _isinstance(dims, int):
        ax = (list(range(len(a._shape) - dims, len(a._shape))), list(range(dims)))
    else:
        ax = (list(dims[0]), list(dims[1]))
    if len(ax[0]) != len(ax[1]):
        raise RuntimeError('tensordot: both dimension lists should have same length')
    na, nb = len(a._shape), len(b._shape)
    A_, B_ = [], []
    for i, j in zip(*ax):
        if not (-na <= i < na) or not (-nb <= j < nb):
            raise IndexError('Dimension out of range')
        i %= na
        j %= nb
        if not deq(a._shape[i], b._shape[j]):
            raise RuntimeError('contracted dimensions need to match')
        A_.append(i)
        B_.append(j)
    if len(set(A_)) != len(A_) or len(set(B_)) != len(B_):
        raise RuntimeError('tensordot: repeated dim')
    shp = [s for k, s in enumerate(a._shape) if k not in A_] + [s for k, s in enumerate(b._shape) if k not in B_]
    return Tensor(shp, a.dtype)


def matmul(a, b):
    if not _isinstance(a, Tensor) or not _isinstance(b, Tensor):
        raise TypeError('matmul(): arguments must be tensors')
    if a.dtype is not b.dtype:
        raise RuntimeError('expected m1 and m2 to have the same dtype')
    sa, sb = a._shape, b._shape
    if not sa or not sb:
        raise RuntimeError('both arguments to matmul need to be at least 1D')
    if len(sa) == 1 and len(sb) == 1:
        if not deq(sa[0], sb[0]):
            raise RuntimeError('size mismatch')
        return Tensor((), a.dtype)
    if len(sa) == 1:
        sa = (1,) + sa
        if not deq(sa[-1], sb[-2]):
            raise RuntimeError('size mismatch')
        return Tensor(tuple(sb[:-2]) + (sb[-1],), a.dtype)
    if len(sb) == 1:
        if not deq(sa[-1], sb[0]):
            raise RuntimeError('size mismatch')
        return Tensor(tuple(sa[:-1]), a.dtype)
    if not deq(sa[-1], sb[-2]):
        raise RuntimeError('mat1 and mat2 shapes cannot be multiplied')
    batch = broadcast(tuple(sa[:-2]), tuple(sb[:-2]))
    return Tensor(tuple(batch) + (sa[-2], sb[-1]), a.dtype)


mm = matmul


def _pad(t, pad, mode='constant', value=0):
    pad = list(pad)
    if len(pad) % 2 != 0 or len(pad) // 2 > len(t._shape):
        raise RuntimeError('Padding length must be divisible by 2 and at most twice the number of dimensions')
    shp = list(t._shape)
    nd = len(shp)
    for i in range(len(pad) // 2):
        a, b = _nonneg(pad[2 * i]), _nonneg(pad[2 * i + 1])
        shp[nd - 1 - i] = _n(shp[nd - 1 - i] + a + b)
    return Tensor(shp, t.dtype)


functional = types.ModuleType('torch.nn.functional')
functional.pad = _pad


class _Linalg(types.ModuleType):
    def __getattr__(self, name):
        known = _st._names().get('linalg')
        if known is not None and name not in known:
            raise AttributeError("module 'torch.linalg' has no attribute '%s'" % name)

        def f(*a, **k):
            unsupported('torch.linalg.' + name + ' (shape level)')
        return f


linalg = _Linalg('torch.linalg')


def _min_dim(m, n):
    return m if dle(m, n) else n


def _qr(t, mode='reduced'):
    if len(t._shape) != 2:
        raise RuntimeError('linalg.qr: expected a matrix')
    m, n = t._shape
    k = _min_dim(m, n)
    return Tensor((m, k), t.dtype), Tensor((k, n), t.dtype)


def _svd(t, full_matrices=True):
    if len(t._shape) != 2:
        raise RuntimeError('linalg.svd: expected a matrix')
    if full_matrices:
        unsupported('svd(full_matrices=True)')
    m, n = t._shape
    k = _min_dim(m, n)
    sdt = t.dtype if not t.dtype.is_complex else (float64 if t.dtype.bits == 128 else float32)
    return Tensor((m, k), t.dtype), Tensor((k,), sdt), Tensor((k, n), t.dtype)


def _norm(t, *a, **k):
    dt = t.dtype
    if dt.is_complex:
        dt = float64 if dt.bits == 128 else float32
    return Tensor((), dt)


def _solve(Am, b):
    if len(Am._shape) != 2 or not deq(Am._shape[0], Am._shape[1]) or not deq(b._shape[0], Am._shape[0]):
        raise RuntimeError('linalg.solve: incompatible shapes')
    return Tensor(b._shape, b.dtype)


linalg.qr = _qr
linalg.svd = _svd
linalg.norm = _norm
linalg.solve = _solve
norm = _norm

_STORE = {}


def save(obj, path):
    _STORE[str(path)] = obj


def load(path, map_location=None, weights_only=True):
    if str(path) not in _STORE:
        raise FileNotFoundError(path)
    return _STORE[str(path)]


class ParameterList(Module):
    def __init__(self, params=None):
        Module.__init__(self)
        object.__setattr__(self, '_list', [])
        for p in (params or []):
            self._list.append(p)

    def __iter__(self):
        return iter(self._list)

    def __len__(self):
        return len(self._list)

    def __getitem__(self, i):
        return self._list[i]


nn = types.ModuleType('torch.nn')
nn.Module = Module
nn.Parameter = Parameter
nn.ParameterList = ParameterList
nn.functional = functional
oe = types.ModuleType('opt_einsum')
oe.contract = lambda eq, *ops, **k: einsum(eq, *ops)


def no_grad():
    return _st._NoGrad()


__version__ = 'shapetorch'


def __getattr__(name):
    if name.startswith('__'):
        raise AttributeError(name)
    known = _st._names().get('torch')
    if known is not None and name not in known:
        raise AttributeError("module 'torch' has no attribute '%s'" % name)

    def f(*a, **k):
        unsupported('torch.' + name + ' (shape level)')
    return f
