"""(re)generate /verif/MANIFEST.json from the table below:  python3-vt -m tv.manifest_gen"""
import json
import os

VERIF = os.path.dirname(os.path.dirname(os.path.abspath(__file__)))

TECH = 'bounded symbolic execution of the real Python source over a symbolic torch/numpy boundary; z3 (fresh solver per query) decides every obligation; counterexamples replayed on real torch'
NOTE = ('Trusted: z3; the symtorch/symnumpy model of the torch/numpy calls torchtt makes (validated on every run against real torch on seeded inputs, '
        'and shielded by replaying every counterexample on the real code before it is reported); arithmetic over the reals instead of IEEE floats. '
        'Bounds (orders, mode sizes, ranks = the unwinding bound) are listed in the evidence file; nothing is claimed outside them.')

CHECKS = {
    'C01': ('model_checking', 'Two layers on the real rank_chop/SVD/to_tt/mat_to_tt/TT.__init__: (K) the rank-selection kernel on symbolic sorted spectra and thresholds (ties are solver-chosen), '
            '(S) the full sweep on sparse dense inputs with symbolic positive magnitudes (structurally-orthogonal class, exact symbolic SVD), symbolic eps, rmax variants, torch/numpy/shape/operator entry points. '
            'Per path z3 decides the rank clauses and ||A-full(T)||^2 <= eps^2||A||^2.', '4 C01'),
    'C02': ('model_checking', 'x.round(eps, rmax) on structurally-orthogonal TT tensors/matrices with symbolic positive magnitudes of arbitrary scale, non-orthogonal and rank-deficient cores, eps symbolic in [0,1); '
            'per path of lr_orthogonal/round_tt/rank_chop z3 decides rank clauses, the error bound and operand preservation.', '4 C02'),
    'C03': ('model_checking', 'For every operand structure inside the bound (orders 1..4/5, sizes<=4, ranks<=3, broadcasting alignments, scalar kinds, dtypes) the core entries and scalar operands are '
            'solver variables and z3 shows that no values make the TT result differ from the dense expression (plus rank/dtype clauses). Exhaustive over values, bounded over structure.', '4 C03'),
    'C04': ('model_checking', 'Same scheme for TT-matrix products, transpose, +,-,*, scalar ops and operator @ dense with 0..3 batch dims; row/column/inner sizes distinct; z3 decides value equality for all core values per structure.', '4 C04'),
    'C05': ('model_checking', 'Inductive step at the shape level: pre-state = 1..3 TT objects built by the constructor from cores with symbolic mode sizes and ranks (every well-formed state within the bound); '
            'one public operation of a 70+ entry catalogue; z3 decides every clause of the structural invariant on all operands and results, for all sizes in the bound at once. One step covers histories of any length.', '4 C05'),
    'C06': ('model_checking', 'For each operation of a 50+ entry catalogue and each operand position the operand is snapshotted as terms; z3 decides whether any input values make the operand differ afterwards; '
            'list/tensor identity and metadata compared structurally; two-step histories with set_core/reduce_dims after view-producing operations.', '4 C06'),
    'C07': ('model_checking', 'norm (Gram chain and QR sweep), dot (all mode subsets), sum (all subsets, TT and TTM), bilinear_form against dense reductions; conjugation clauses decided with symbolic complex entries.', '4 C07'),
    'C08': ('model_checking', 'Index values are z3 integers (negative allowed), core entries z3 reals; every index-kind pattern inside the bound incl. length-1 slices, singleton modes, None, Ellipsis; result values and shape compared with dense indexing.', '4 C08'),
    'C09': ('model_checking', 'cat/pad/diag/mprod/to_ttm/conj/clone against the dense operation for all core, fill and factor values per structure (pad fill value symbolic, so 0 and non-zero are both covered).', '4 C09'),
    'C10': ('model_checking', 'reshape / permute / to_qtt on structurally-orthogonal inputs with symbolic magnitudes and symbolic eps (exact QR/SVD models), qtt_to_tens on arbitrary symbolic cores: requested shape exactly, '
            'error <= c*eps*norm per path, and exact equality at the default eps (decides sign/scale preservation under the positive-diagonal QR convention).', '4 C10'),
    'C11': ('model_checking', 'PARTIAL: decides only the structural clause "fast_matvec, dmrg_hadamard, amen_mv and amen_mm return a TT object of the correct kind and shape with a well-formed rank chain and raise nothing, '
            'for every pair of compatible operands incl. order 1 and 2, with a random or user-supplied initial guess"; the accuracy clause (convergence of a randomised floating-point sweep) is not encodable and not claimed. '
            'The real DMRG/AMEn source is executed with every floating value abstracted to HAVOC (any value; each comparison an independent nondeterministic choice), so every outcome of the factorizations, rank truncations, '
            'residual and convergence tests is a path; shapes, ranks and loop structure stay exact.', '4 C11'),
    'C12': ('model_checking', 'PARTIAL: decides only the structural clause "amen_solve(A, b, ...) returns x of the right shape (a well-formed TT tensor) and raises nothing, with every preconditioner option, the direct and both '
            'iterative local solvers, with or without an initial guess"; the residual bound (convergence of an iterative floating-point solver) is not encodable and not claimed. The real AMEn source runs on HAVOC data '
            '(any value, nondeterministic comparisons); the Krylov loops are replaced by a contract that applies the local operator once.', '4 C12'),
    'C13': ('model_checking', 'PARTIAL: decides only the structural clause "x / y, scalar / y and elementwise_divide return a TT tensor of the same shape and raise nothing" on HAVOC data (the exact clause "dividing by a scalar" is decided '
            'under C03); the accuracy of the AMEn division is not encodable and not claimed.', '4 C13'),
    'C14': ('model_checking', 'PARTIAL: decides only the clause "dmrg_cross calls the user function with an M x d int64 index matrix whose column k lies in [0, N[k])" and the absence of shape/index errors, '
            'not the accuracy clause (convergence of a randomised floating-point iteration is not encodable); for function_interpolate only its structure (result shape, form of the arguments handed to the user function, no exception), not its data clause. The real dmrg_cross / _maxvol source is executed with every floating value '
            'abstracted to HAVOC (any value; each comparison an independent nondeterministic choice), so every outcome of pivoting, rank truncation and the convergence test is a path; the integer side '
            '(index sets, unravel_index arithmetic, gathers, concatenations, ranks) stays exact and z3 (QF_LIA) decides the range obligations per path.', '4 C14'),
    'C15': ('model_checking', 'Autograd model on exact symbolic expressions: tracked cores are symbols, detach/item/numpy/tensor(t) are value-equal cut copies, backward() is exact differentiation. For 25 expressions over the '
            'differentiable operations and every choice of tracked operand/core, z3 decides EXISTS core values . dF_TT/dtheta != dF_dense/dtheta; grad.grad / grad.grad_list bookkeeping and shapes checked per path; '
            'each replay compares torch.autograd gradients on the real code.', '4 C15'),
    'C16': ('model_checking', 'riemannian_projection on rank-1 base points with arbitrary symbolic entries and on sparse rank-2..3 base points with symbolic magnitudes (exact symbolic QR), z, w arbitrary symbolic TT objects: '
            'linearity (symbolic alpha, beta), idempotence, self-adjointness, P(x)=x, residual orthogonality and the rank bound are decided by z3 as equalities of rational functions with roots; riemannian_gradient(x, f) for three f is compared with P_x(grad f) through the autograd model of C15.', '4 C16'),
    'C18': ('model_checking', 'Shape-level symbolic execution: mode sizes and ranks of the operands are z3 integers in [1,B]; for every public entry point and operand-kind pair one run per structure explores the '
            'guards and the torch shape calculus; for every returning path z3 decides EXISTS sizes . NOT compatible (independent predicate from the docs); argument-type classes enumerated; documented exception classes compared.', '4 C18'),
    'C19': ('model_checking', 'load(save(x)), clone, detach, to, cpu, numpy on objects built from symbolic cores, by slicing, by TT-SVD and by rounding; the explorer reaches the paths on which the rank list holds numpy '
            'integers; z3 decides entry equality, the remaining clauses (kind, shape, ranks, dtype, storage independence) are structural per path. torch.save/load are a stub validated by real replay.', '4 C19'),
    'C20': ('model_checking', 'forward(x) == W.x + b for all weights, biases and inputs per layer structure (modes, rank profiles, batch dims, initialisers, dtypes); parameter registration checked structurally. Gradient clause under C15.', '4 C20'),
}

NA = {}


def main():
    props = [json.loads(l) for l in open(os.path.join(VERIF, 'properties.jsonl'))]
    na_default = json.load(open(os.path.join(VERIF, 'tv', 'not_applicable.json')))
    checks = []
    for pid, (cat, text, ref) in sorted(CHECKS.items()):
        checks.append({
            'property_id': pid,
            'quick_cmd': './check %s --tier quick' % pid,
            'thorough_cmd': './check %s --tier thorough' % pid,
            'evidence_file': 'evidence/%s.json' % pid,
            'replay_cmd_template': './check %s --replay {path}' % pid,
            'engine': 'tv',
            'level_claimed': {'category': cat, 'text': text, 'design_ref': 'DESIGN.md section ' + ref},
            'level_note': NOTE,
            'technique': TECH,
        })
    na = []
    for p in props:
        if p['id'] not in CHECKS:
            na.append({'property_id': p['id'], 'reason': na_default.get(p['id'], 'check not built yet (framework under construction)')})
    m = {
        'version': 1,
        'setup_cmd': 'python3-vt -m tv.selfcheck',
        'hooks': {'guard': 'TORCHTT_VERIF', 'enable': 'no source hooks: checks import /repo unmodified and substitute the torch/numpy import boundary (tv/loader.py)',
                  'baseline_off_cmd': 'cd /repo && /venv/bin/python -m pytest -ra -q -p no:cacheprovider --timeout=900 --continue-on-collection-errors',
                  'source_commits': [], 'add_only': True},
        'engines': [{'name': 'tv', 'path': 'tv/', 'serves_properties': sorted(CHECKS),
                     'kind_free_text': 'symbolic execution of the repository source (path explorer + symbolic torch/numpy shim) with z3; real-torch replay and translator validation'}],
        'checks': checks,
        'not_applicable': na,
        'notes': 'Exit codes of ./check: 0 held on everything explored (KNOWN-FINDING lines allowed), 1 replayed violation, 2 harness error / encoding mismatch / too many inconclusive.',
    }
    json.dump(m, open(os.path.join(VERIF, 'MANIFEST.json'), 'w'), indent=1)
    print('MANIFEST.json: %d checks, %d not_applicable' % (len(checks), len(na)))


if __name__ == '__main__':
    main()
