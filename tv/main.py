import sys
import os
import json
import argparse
import importlib

sys.dont_write_bytecode = True
sys.setrecursionlimit(20000)


def main():
    ap = argparse.ArgumentParser()
    ap.add_argument('pid')
    ap.add_argument('--tier', default=os.environ.get('VERIF_TIER', 'quick'))
    ap.add_argument('--replay', default=None)
    ap.add_argument('--limit', type=int, default=None)
    ap.add_argument('--only', default=None, help='substring filter on the case json')
    a = ap.parse_args()
    seed = int(os.environ.get('VERIF_SEED', '0') or 0)
    tier = a.tier if a.tier in ('quick', 'thorough') else 'quick'
    if a.replay:
        from . import run
        spec = json.load(open(a.replay))
        res = run.run_real([{'id': 'r', 'scen': spec['scen'], 's': spec['s'], 'inputs': spec['inputs']}])['r']
        bad = [x for x in res['results'] if x['status'] == 'violated']
        print(json.dumps(res['results'], indent=1))
        if bad:
            print('VIOLATION property=%s replay=%s' % (spec['property'], a.replay))
            sys.exit(1)
        print('not reproduced')
        sys.exit(0)
    h = importlib.import_module('tv.harness.' + a.pid)
    cases = h.cases(tier, seed)
    if tier == 'thorough' and getattr(h, 'THOROUGH_SEEDS', 1) > 1:
        # thorough: union of the sampled structures of several seeds (deduplicated)
        seen = {json.dumps(c, sort_keys=True) for c in cases}
        for i in range(1, h.THOROUGH_SEEDS):
            for c in h.cases(tier, seed + 1000 * i):
                k = json.dumps(c, sort_keys=True)
                if k not in seen:
                    seen.add(k)
                    cases.append(c)
    if a.only:
        cases = [c for c in cases if a.only in json.dumps(c)]
    if a.limit:
        cases = cases[:a.limit]
    from . import run
    rc = run.run_check(a.pid, cases, tier, seed, h.opts(tier), h.meta(tier))
    sys.exit(rc)


if __name__ == '__main__':
    main()
