"""Mutation self-test: apply seeded source mutations to a scratch copy of /repo and require the check to report a
replayed VIOLATION (exit 1).  Not part of any verdict.   python3-vt -m tv.selftest [PID ...]"""
import os
import sys
import json
import shutil
import tempfile
import subprocess

VERIF = os.path.dirname(os.path.dirname(os.path.abspath(__file__)))

# (property, name, file, old, new, --only filter or None)
MUTANTS = [
    ('C01', 'ep=eps', 'torchtt/_decomposition.py', 'ep = eps/np.sqrt(d-1)', 'ep = eps', 'ttsvd'),
    ('C01', 'rank_chop >= back to >', 'torchtt/_decomposition.py', 'sc[-1]>=eps**2', 'sc[-1]>eps**2', 'rank_chop_kernel'),
    ('C01', 'rank_chop < to <=', 'torchtt/_decomposition.py', 'R = np.argmax(sc<eps**2)', 'R = np.argmax(sc<=eps**2)', None),
    ('C01', 'mat_to_tt un-interleave', 'torchtt/_decomposition.py', 'tmp = tn.reshape(tmp,[M[i],N[i],tmp.shape[1],tmp.shape[2]])', 'tmp = tn.permute(tn.reshape(tmp,[N[i],M[i],tmp.shape[1],tmp.shape[2]]),[1,0,2,3])', 'ttm'),
    ('C01', 'rmax off by one', 'torchtt/_decomposition.py', 'r1 = min([r1,rmax[i+1]])', 'r1 = min([r1,rmax[i]])', 'rmax'),
    ('C02', 'round: eps not split', 'torchtt/_decomposition.py', 'eps = eps / np.sqrt(d-1) ', 'eps = eps * 1.0 ', None),
    ('C02', 'round: no orthogonalisation', 'torchtt/_decomposition.py', '    tt_cores, R = lr_orthogonal(tt_cores, R, is_ttm)\n    core_now = tt_cores[-1]', '    tt_cores = [c.clone() for c in tt_cores]\n    core_now = tt_cores[-1]', None),
    ('C02', 'round: Rmax index shift', 'torchtt/_decomposition.py', 'r_now = min([Rmax[i],rank_chop(S.numpy(),tn.linalg.norm(S).numpy()*eps)])', 'r_now = min([Rmax[i+1],rank_chop(S.numpy(),tn.linalg.norm(S).numpy()*eps)])', 'rmax'),
    ('C02', 'round: R.copy removed', 'torchtt/_tt_base.py', 'self.cores, self.__R.copy(), eps, rmax, self.__is_ttm)', 'self.cores, self.__R, eps, rmax, self.__is_ttm)', None),
    ('C02', 'round: S on the wrong factor', 'torchtt/_decomposition.py', '        U = U @ tn.diag(S)\n        R[i] = r_now\n        core_next = core_next @ U\n        core_now = V', '        R[i] = r_now\n        core_next = core_next @ U\n        core_now = tn.diag(S*S) @ V', None),
    ('C03', 'pad side swapped in add', 'torchtt/_tt_base.py', "                        pad1 = (0, 0 if i == len(\n                            self.__N)-1 else other.R[i+1], 0, 0, 0, 0 if i == 0 else other.R[i])\n                        pad2 = (0 if i == len(\n                            self.__N)-1 else self.__R[i+1], 0, 0, 0, 0 if i == 0 else self.R[i], 0)\n                        cores.append(\n                            tnf.pad(self.cores[i], pad1)+tnf.pad(other.cores[i], pad2))\n                else:", "                        pad1 = (0, 0 if i == len(\n                            self.__N)-1 else other.R[i+1], 0, 0, 0, 0 if i == 0 else other.R[i])\n                        pad2 = (0 if i == len(\n                            self.__N)-1 else self.__R[i+1], 0, 0, 0, 0 if i == 0 else self.R[i], 0)\n                        cores.append(\n                            tnf.pad(self.cores[i], pad2)+tnf.pad(other.cores[i], pad1))\n                else:", 'tt_binop'),
    ('C03', 'mul einsum letters', 'torchtt/_tt_base.py', "tn.einsum('aib,mn->amibn', self.cores[i], other.cores[k][:, 0, :])", "tn.einsum('aib,mn->maibn', self.cores[i], other.cores[k][:, 0, :])", 'tt_binop'),
    ('C03', 'div in place again', 'torchtt/_tt_base.py', 'cores_new[0] = cores_new[0] / other', 'cores_new[0] /= other', 'tt_scalar'),
    ('C04', 'matvec einsum', 'torchtt/_tt_base.py', "tn.einsum('ijkl,mkp->imjlp', self.cores[i], other.cores[i])", "tn.einsum('ijkl,mkp->mijlp', self.cores[i], other.cores[i])", 'ttm_matvec'),
    ('C04', 'dense_matvec axes', 'torchtt/_aux_ops.py', '([D-d,-1],[2,0])', '([D-d,-1],[1,0])', 'ttm_dense_matvec'),
    ('C04', 'transpose', 'torchtt/_tt_base.py', 'cores_new = [tn.permute(c, [0, 2, 1, 3]) for c in self.cores]', 'cores_new = [tn.permute(c, [0, 2, 1, 3]) for c in self.cores[:-1]] + [self.cores[-1]]', 'ttm_transpose'),
    ('C06', 'neg without clone', 'torchtt/_tt_base.py', "        cores_new = [c.clone() for c in self.cores]\n        cores_new[0] = -cores_new[0]", "        cores_new = [c for c in self.cores]\n        cores_new[0] *= -1", 'neg'),
    ('C07', 'dot no conj', 'torchtt/_extras.py', "a.cores[i], tn.conj(b.cores[i]))\n        result = tn.squeeze(result)", "a.cores[i], b.cores[i])\n        result = tn.squeeze(result)", 'tt_dot'),
    ('C07', 'sum TTM wrong axes', 'torchtt/_tt_base.py', "C = tn.sum(tn.einsum('i,ijkl->jkl',\n                               C, self.cores[i]), [0, 1])", "C = tn.sum(tn.einsum('i,ijkl->jkl',\n                               C, self.cores[i]), [0, 2])", 'tt_sum'),
    ('C08', 'negative index', 'torchtt/_tt_base.py', "cores_new.append(tn.reshape(self.cores[k][:, idx, :], [\n                                         self.__R[k], -1, self.R[k+1]]))", "cores_new.append(tn.reshape(self.cores[k][:, abs(idx), :], [\n                                         self.__R[k], -1, self.R[k+1]]))", 'tt_getitem'),
    ('C09', 'cat offset', 'torchtt/_extras.py', "                    offset2 += t.cores[i].shape[1]\n                    if i < len(tensors[0].N)-1:", "                    offset2 += t.cores[0].shape[1]\n                    if i < len(tensors[0].N)-1:", 'tt_cat'),
    ('C09', 'diag extract permute', 'torchtt/_extras.py', "tn.diagonal(c, dim1=1, dim2=2).permute([0, 2, 1])", "tn.diagonal(c, dim1=1, dim2=2).permute([1, 2, 0]).reshape([c.shape[0], -1, c.shape[3]])", 'tt_diag'),
    ('C10', 'permute: comparison flipped', 'torchtt/_extras.py', 'if dims.index(i1) > dims.index(i2):', 'if dims.index(i1) < dims.index(i2):', 'tt_permute'),
    ('C10', 'permute: eps not scaled, US on wrong side', 'torchtt/_extras.py', "                    US = U[:, :r_now]@tn.diag(S[:r_now])\n                    V = V[:r_now, :]\n\n                    cores[i] = tn.reshape(\n                        US, [cores[i].shape[0], cores[i+1].shape[1], -1])", "                    US = U[:, :r_now]\n                    V = tn.diag(S[:r_now]*S[:r_now])@V[:r_now, :]\n\n                    cores[i] = tn.reshape(\n                        US, [cores[i].shape[0], cores[i+1].shape[1], -1])", 'tt_permute'),
    ('C10', 'reshape: merged core reshape order', 'torchtt/_extras.py', "core = tn.reshape(core, [core.shape[0], -1, core.shape[-1]])\n\n        idx_shape += 1", "core = tn.reshape(tn.permute(core, [0, 2, 1, 3]), [core.shape[0], -1, core.shape[-1]])\n\n        idx_shape += 1", 'tt_reshape'),
    ('C10', 'to_qtt: per-core truncation again', 'torchtt/_tt_base.py', 'cores, _ = to_tt(core, Nnew, 0.0, sys.maxsize, is_sparse=False)', 'cores, _ = to_tt(core, Nnew, eps, rmax, is_sparse=False)', 'tt_to_qtt'),
    ('C10', 'qtt_to_tens: stale so_far', 'torchtt/_tt_base.py', "                    so_far *= c.shape[1]", "                    so_far *= c.shape[0]", 'tt_qtt_to_tens'),
    ('C05', 'set_core: shape attr stale again', 'torchtt/_tt_base.py', "                self.cores[k] = core.clone()\n                self.__N[k] = core.shape[1]\n        self.shape = [(m, n) for m, n in zip(self.__M, self.__N)\n                      ] if self.__is_ttm else [n for n in self.N]", "                self.cores[k] = core.clone()\n                self.__N[k] = core.shape[1]", 'set_core'),
    ('C05', 'reduce_dims: R not rebuilt for ttm', 'torchtt/_tt_base.py', "                self.__M.append(cores_new[i].shape[1])\n                self.__R.append(cores_new[i].shape[3])", "                self.__M.append(cores_new[i].shape[1])\n                self.__R.append(cores_new[i].shape[0])", 'reduce_dims'),
    ('C06', 'dmrg: initial guess aliased again', 'torchtt/_dmrg.py', "    y_cores = y0.cores.copy()\n    Ry = y0.R.copy()\n    \n    d = len(x.N)", "    y_cores = y0.cores\n    Ry = y0.R.copy()\n    \n    d = len(x.N)", 'dmrg'),
    ('C08', 'slices squeezed again', 'torchtt/_tt_base.py', "                        cores_new.append(self.cores[k][:, idx, :])\n                        exclude.append(i)", "                        cores_new.append(self.cores[k][:, idx, :])", 'getitem_shape'),
    ('C16', 'projection: gauge term dropped', 'torchtt/manifold.py', "Sds.append(tn.einsum('riS,RS->riR',tmp1-tmp2,R))", "Sds.append(tn.einsum('riS,RS->riR',tmp1,R))", None),
    ('C16', 'projection: last core uses wrong left factor', 'torchtt/manifold.py', "                Sds.append(tn.einsum('rs,siS->riS',L,z.cores[k]))           ", "                Sds.append(tn.einsum('rs,siS->riS',L*0+1,z.cores[k]))           ", None),
    ('C18', 'bilinear_form guard on x only', 'torchtt/_extras.py', "    if x.N != A.M or y.N != A.N:", "    if x.N != A.M:", 'c18_bilinear'),
    ('C18', 'mul ttm guard ignores M', 'torchtt/_tt_base.py', "                if self.__N == other.N and self.__M == other.M:", "                if self.__N == other.N:", 'c18_binop'),
    ('C19', 'save casts cores', 'torchtt/_extras.py', "               \"N\": [int(n) for n in tensor.N], \"cores\": tensor.cores}\n        tn.save(dct, path)\n", "               \"N\": [int(n) for n in tensor.N], \"cores\": [c.to(tn.float64) if c.dtype == tn.float32 else c for c in tensor.cores]}\n        tn.save(dct, path)\n", 'save_load'),
    ('C19', 'clone shares last core', 'torchtt/_tt_base.py', "        return TT([c.clone() for c in self.cores])", "        return TT([c.clone() for c in self.cores[:-1]] + [self.cores[-1]])", 'copies'),
    ('C20', 'layer bias dropped for batches', 'torchtt/nn.py', "        return result+self.bias", "        return result+self.bias if D == d else result", 'tt_layer'),
]


def run_mutant(m):
    pid, name, f, old, new, only = m
    td = tempfile.mkdtemp(prefix='tv_mut_')
    try:
        dst = os.path.join(td, 'repo')
        shutil.copytree('/repo', dst, ignore=shutil.ignore_patterns('.git', '__pycache__', '*.png', 'docs', 'examples', '.benchmarks'))
        p = os.path.join(dst, f)
        s = open(p).read()
        if s.count(old) != 1:
            return name, 'SKIP(pattern count %d)' % s.count(old)
        open(p, 'w').write(s.replace(old, new))
        env = dict(os.environ, TV_REPO=dst, TV_EVIDENCE_DIR=os.path.join(td, 'ev'), TV_REPLAY_DIR=os.path.join(td, 'rp'))
        cmd = [os.path.join(VERIF, 'check'), pid] + (['--only', only] if only else [])
        r = subprocess.run(cmd, env=env, stdout=subprocess.PIPE, stderr=subprocess.STDOUT, timeout=3000)
        out = r.stdout.decode()
        nv = out.count('VIOLATION property=')
        return name, ('KILLED' if r.returncode == 1 and nv else 'SURVIVED(rc=%d)' % r.returncode) + ' violations=%d %s' % (nv, out.strip().splitlines()[-2][:160] if out.strip() else '')
    finally:
        shutil.rmtree(td, ignore_errors=True)


def main():
    want = sys.argv[1:]
    res = []
    for m in MUTANTS:
        if want and m[0] not in want:
            continue
        name, verdict = run_mutant(m)
        print('%s  %-34s %s' % (m[0], name, verdict), flush=True)
        res.append((m[0], name, verdict))
    killed = sum(1 for r in res if r[2].startswith('KILLED'))
    print('selftest: %d/%d mutants killed' % (killed, len(res)))


if __name__ == '__main__':
    main()
