"""Load the repository's real torchtt source over the symbolic torch / numpy boundary.

The code objects that run are /repo's, line for line: the encoding is
regenerated from the working tree on every run by construction.
"""
import sys
import os
import types
import inspect
import warnings

REPO = os.environ.get('TV_REPO', '/repo')

_loaded = None


def load(repo=None, fresh=False, shim='value'):
    """returns the torchtt package loaded from `repo` with torch -> symtorch (shim='value') or shapetorch
    (shim='shape') and numpy -> facade."""
    global _loaded
    repo = repo or REPO
    if _loaded is not None and not fresh and _loaded[0] == (repo, shim):
        return _loaded[1]
    sys.dont_write_bytecode = True
    from . import symnumpy
    from .scalar import sym_isinstance, sym_max, sym_min
    if shim == 'shape':
        from . import shapetorch as symtorch
    else:
        from . import symtorch

    for k in [k for k in sys.modules if k == 'torchtt' or k.startswith('torchtt.')]:
        del sys.modules[k]
    saved = {k: sys.modules.get(k) for k in ('torch', 'torch.nn', 'torch.nn.functional', 'torch.linalg',
                                             'opt_einsum', 'numpy', 'torchttcpp')}
    sys.modules['torch'] = symtorch
    sys.modules['torch.nn'] = symtorch.nn
    sys.modules['torch.nn.functional'] = symtorch.functional
    sys.modules['torch.linalg'] = symtorch.linalg
    sys.modules['opt_einsum'] = symtorch.oe
    real_np = sys.modules['numpy']
    sys.modules['numpy'] = symnumpy.facade
    sys.modules['torchttcpp'] = None     # the C++ extension is not part of any claim
    sys.path.insert(0, repo)
    try:
        with warnings.catch_warnings():
            warnings.simplefilter('ignore')
            import torchtt
            import torchtt._tt_base, torchtt._extras, torchtt._decomposition, torchtt._aux_ops  # noqa
            import torchtt.manifold, torchtt.nn, torchtt.grad, torchtt._dmrg, torchtt.interpolate  # noqa
    finally:
        sys.path.remove(repo)
        sys.modules['numpy'] = real_np
        for k in ('torch', 'torch.nn', 'torch.nn.functional', 'torch.linalg', 'opt_einsum', 'torchttcpp'):
            if saved[k] is None:
                sys.modules.pop(k, None)
            else:
                sys.modules[k] = saved[k]
    assert os.path.realpath(torchtt.__file__).startswith(os.path.realpath(repo)), torchtt.__file__
    for name, m in list(sys.modules.items()):
        if (name == 'torchtt' or name.startswith('torchtt.')) and m is not None:
            m.isinstance = sym_isinstance
            m.max = sym_max
            m.min = sym_min
            if 'math' in m.__dict__:
                from . import symmath
                m.math = symmath.facade
            if shim == 'shape' and hasattr(m, 'rank_chop'):
                m.rank_chop = _havoc_rank_chop          # stub: any rank in [1, len(s)] (the kernel itself is checked under C01)
    torchtt.__tv_shim__ = shim
    _loaded = ((repo, shim), torchtt)
    return torchtt


def _havoc_rank_chop(s, eps):
    from . import apoly
    from .explorer import cur
    n = s.size
    r = apoly.new_dim('rank', 1, None)
    cur().assume(r <= n)
    return r


def functions_encoded(objs):
    """[(qualified name, file:first-last line)] for evidence."""
    out = []
    for o in objs:
        try:
            src, start = inspect.getsourcelines(o)
            f = os.path.relpath(inspect.getsourcefile(o), REPO)
            out.append('%s %s:%d-%d' % (getattr(o, '__qualname__', getattr(o, '__name__', str(o))), f, start, start + len(src) - 1))
        except Exception:
            out.append(str(o))
    return out
