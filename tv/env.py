"""Scenario environments under python3-vt: symbolic (z3-decided) and exact (Fractions, translator validation)."""
import time
from fractions import Fraction
import numpy as np
import z3

from . import symtorch as st
from . import symnumpy
from .explorer import cur, SymBool, PathAbort, unsupported
from .scalar import Z, C, SymInt, real, integer, to_z3_real, re_part, im_part
from .values import seeded_fraction, seeded_int
from . import apoly

DT = {'float64': st.float64, 'float32': st.float32, 'complex128': st.complex128, 'complex64': st.complex64,
      'int64': st.int64}


def _frac(v):
    """z3 numeric value -> Fraction"""
    if z3.is_rational_value(v):
        return Fraction(v.numerator_as_long(), v.denominator_as_long())
    if z3.is_int_value(v):
        return Fraction(v.as_long())
    if z3.is_algebraic_value(v):
        a = v.approx(30)
        return Fraction(a.numerator_as_long(), a.denominator_as_long())
    raise ValueError('not a value: %s' % v)


from .values import PHASES


def phased(m, k):
    """complex entry of modulus m (positive A-scalar) with the k-th fixed rational unit phase: |entry|^2 == m^2 exactly"""
    c, s_ = PHASES[k % len(PHASES)]
    return C(m * c if c != 0 else 0, m * s_ if s_ != 0 else 0)


def scalar_terms(v):
    """entry -> (re, im) z3 real terms (im None for reals)"""
    if isinstance(v, (C, complex)):
        return to_z3_real(re_part(v)), to_z3_real(im_part(v))
    if isinstance(v, SymBool):
        raise TypeError('bool entry')
    return to_z3_real(v), None


def _np_obj2(vals):
    a = np.empty((len(vals),), dtype=object)
    for i, v in enumerate(vals):
        a[i] = v
    return a


def diff_clauses(a, b):
    """list of z3 disequalities between two equally-shaped object arrays; syntactically equal entries are skipped."""
    out = []
    for x, y in zip(a.flat, b.flat):
        if x is y:
            continue
        if isinstance(x, (int, float, Fraction)) and isinstance(y, (int, float, Fraction)):
            if x == y:
                continue
            out.append(z3.BoolVal(True))
            continue
        if (isinstance(x, C) and (isinstance(x.re, apoly.P) or isinstance(x.im, apoly.P))) or (isinstance(y, C) and (isinstance(y.re, apoly.P) or isinstance(y.im, apoly.P))):
            xa = _np_obj2([re_part(x), im_part(x)])
            ya = _np_obj2([re_part(y), im_part(y)])
            out.extend(diff_clauses(xa, ya))
            continue
        if isinstance(x, apoly.P) or isinstance(y, apoly.P):
            d = x - y
            if apoly.is_structural_zero(d):
                continue
            d = d.cleared() if isinstance(d, apoly.P) else d
            if apoly.is_structural_zero(d):
                continue
            if not isinstance(d, apoly.P):
                out.append(z3.BoolVal(True))
                continue
            apoly.register_side(d.symbols())
            out.append(d.to_z3() != 0)
            continue
        xr, xi = scalar_terms(x)
        yr, yi = scalar_terms(y)
        if xi is None and yi is None:
            if xr.eq(yr):
                continue
            out.append(xr != yr)
        else:
            xi = xi if xi is not None else z3.RealVal(0)
            yi = yi if yi is not None else z3.RealVal(0)
            if xr.eq(yr) and xi.eq(yi):
                continue
            out.append(z3.Or(xr != yr, xi != yi))
    return out


def syntactic_nonneg(t, depth=0):
    """sound syntactic test: numerals >= 0, sums of non-negative terms, products whose factors pair up identically"""
    if z3.is_rational_value(t) or z3.is_int_value(t):
        return t.numerator_as_long() >= 0 if z3.is_rational_value(t) else t.as_long() >= 0
    if z3.is_add(t):
        return all(syntactic_nonneg(c, depth + 1) for c in t.children())
    if z3.is_mul(t):
        ch = list(t.children())
        rest = []
        while ch:
            c = ch.pop()
            for i, o in enumerate(ch):
                if o.eq(c):
                    ch.pop(i)
                    break
            else:
                rest.append(c)
        return all(syntactic_nonneg(c, depth + 1) for c in rest)
    if z3.is_app_of(t, z3.Z3_OP_POWER):
        e = t.arg(1)
        return z3.is_int_value(e) and e.as_long() % 2 == 0 or (z3.is_rational_value(e) and e.denominator_as_long() == 1 and e.numerator_as_long() % 2 == 0)
    return False


class BaseEnv:
    def sos_fact(self, t):
        pass

    def havoc_tensor(self, shape, dtype='float64'):
        """floating tensor about whose entries nothing is assumed (index-level analyses)"""
        from .scalar import HAVOC
        a = np.empty(tuple(int(n) for n in shape), dtype=object)
        a[...] = HAVOC
        return st.Tensor(a, DT[dtype])

    def cconst(self, re, im):
        """complex constant with exact rational parts"""
        if getattr(self, 'scalar_mode', 'Z') == 'A':
            k = lambda f: apoly.P.const(Fraction(f)) if f != 0 else 0
        else:
            k = lambda f: Z(z3.RealVal(Fraction(f)))
        return C(k(re), k(im))

    def sumsq(self, t):
        """sum of squares of the entries of a real tensor (A-scalars: registered as non-negative)"""
        vals = list(self.arr(t).flat)
        if vals and all(isinstance(v, apoly.P) or apoly._num(v) is not None for v in vals) and any(isinstance(v, apoly.P) for v in vals):
            return st.Tensor(st._objarr(apoly.sum_of_squares(vals)), t.dtype)
        return self.tn.sum(t * t)


    def __init__(self, tt):
        self.tt = tt
        self.shape_level = getattr(tt, '__tv_shim__', 'value') == 'shape'
        if self.shape_level:
            from . import shapetorch
            self.tn = shapetorch
        else:
            self.tn = st
        self.np = symnumpy.facade
        self.results = []
        self.inputs = {}
        self.notes = {}

    def dt(self, name):
        return DT[name]

    def dtname(self, t):
        return str(t.dtype).replace('torch.', '')

    def note(self, k, v):
        self.notes[k] = v

    def arr(self, x):
        if isinstance(x, st.Tensor):
            return x.a
        if isinstance(x, symnumpy.ndarray):
            return x.a
        if isinstance(x, np.ndarray):
            return x if x.dtype == object else x.astype(object)
        return st._objarr(x)

    def const_tensor(self, nested, dtype='float64'):
        return st.tensor(nested, dtype=DT[dtype])


class SymEnv(BaseEnv):
    mode = 'sym'

    def __init__(self, tt, qtimeout_ms=30000, scalar_mode='Z'):
        BaseEnv.__init__(self, tt)
        self.qtimeout_ms = qtimeout_ms
        self.scalar_mode = scalar_mode

    # -- inputs
    def _fresh_arr(self, name, shape, dtype):
        a = np.empty(tuple(shape), dtype=object)
        cplx = dtype.startswith('complex')
        for ix in np.ndindex(*tuple(shape)):
            if self.scalar_mode == 'A':
                a[ix] = C(apoly.new_real(name + '.re'), apoly.new_real(name + '.im')) if cplx else apoly.new_real(name)
            else:
                a[ix] = C(real(name + '.re'), real(name + '.im')) if cplx else real(name)
        return a

    def pos_tensor(self, name, shape, pattern, dtype='float64', source='torch', phase_idx=None):
        """dense array, strictly positive symbols at the pattern positions, structural zeros elsewhere (A-scalars);
        complex dtypes: entry k carries the fixed unit phase PHASES[phase_idx[k]] (default: k)"""
        a = np.empty(tuple(shape), dtype=object)
        a[...] = 0
        for k, ix in enumerate(pattern):
            m = apoly.new_pos(name)
            a[tuple(ix)] = phased(m, phase_idx[k] if phase_idx else k) if dtype.startswith('complex') else m
        self.inputs[name] = {'kind': 'pos_tensor', 'dtype': dtype, 'shape': list(shape), 'syms': a.copy()}
        if source == 'numpy':
            return symnumpy.ndarray(a, DT[dtype])
        return st.Tensor(a, DT[dtype])

    # -- shape level
    def dim(self, name, lo=1, hi=4):
        v = apoly.new_dim(name, lo, hi)
        self.inputs[name] = {'kind': 'dim', 'syms': v}
        apoly.register_side(v.symbols())
        return v

    def stensor(self, name, shape, dtype='float64'):
        from . import shapetorch
        return shapetorch.Tensor(list(shape), DT[dtype])

    def internal(self, e):
        """is this exception the checker's own (unsupported / abort) rather than the library's?"""
        from .explorer import Unsupported
        return isinstance(e, Unsupported)

    def grad_of(self, scalar, leaf):
        """reference derivative of a one-element tensor w.r.t. the entries of a leaf tensor (symbolic differentiation)"""
        from . import autograd
        return st.Tensor(autograd.grad_of(scalar, leaf), leaf.dtype)

    def pos_scalar(self, name, lo=None, hi=None):
        v = apoly.new_pos(name)
        self.inputs[name] = {'kind': 'scalar', 'skind': 'float', 'syms': v}
        if lo is not None:
            self.assume(v > lo)
        if hi is not None:
            self.assume(v < hi)
        return v

    def tensor(self, name, shape, dtype='float64'):
        if self.shape_level:
            return self.stensor(name, shape, dtype)
        a = self._fresh_arr(name, shape, dtype)
        self.inputs[name] = {'kind': 'tensor', 'dtype': dtype, 'shape': list(shape), 'syms': a.copy()}
        return st.Tensor(a, DT[dtype])

    def nparray(self, name, shape, dtype='float64'):
        a = self._fresh_arr(name, shape, dtype)
        self.inputs[name] = {'kind': 'nparray', 'dtype': dtype, 'shape': list(shape), 'syms': a.copy()}
        return symnumpy.ndarray(a, DT[dtype])

    def itensor(self, name, shape, lo, hi):
        a = np.empty(tuple(shape), dtype=object)
        for ix in np.ndindex(*tuple(shape)):
            a[ix] = integer(name, lo, hi)
        self.inputs[name] = {'kind': 'itensor', 'dtype': 'int64', 'shape': list(shape), 'syms': a.copy()}
        return st.Tensor(a, st.int64)

    def int(self, name, lo, hi):
        v = integer(name, lo, hi)
        self.inputs[name] = {'kind': 'int', 'syms': v}
        return v

    def scalar(self, name, kind='float', dtype='float64'):
        """kind: float | npfloat | complex | tensor0 | tensor1"""
        if self.shape_level:
            if kind == 'tensor0':
                return self.stensor(name, [], dtype)
            if kind == 'tensor1':
                return self.stensor(name, [1], dtype)
            return 2.5
        if kind == 'complex':
            v = C(real(name + '.re'), real(name + '.im'))
            self.inputs[name] = {'kind': 'scalar', 'skind': kind, 'syms': v}
            return v
        v = apoly.new_real(name) if self.scalar_mode == 'A' else real(name, kind if kind in ('npfloat', 'npfloat32', 'npint') else 'float')
        self.inputs[name] = {'kind': 'scalar', 'skind': kind, 'dtype': dtype, 'syms': v}
        if kind == 'tensor0':
            return st.Tensor(st._objarr(v), DT[dtype])
        if kind == 'tensor1':
            return st.Tensor(st._objarr([v]), DT[dtype])
        return v

    def assume(self, cond):
        if isinstance(cond, st.Tensor):
            for v in cond.a.flat:
                self.assume(v)
            return
        if isinstance(cond, (bool, np.bool_)):
            if not cond:
                raise PathAbort('assume false')
            return
        cur().assume(cond)

    # -- model extraction
    def concretize(self, model):
        def val(s):
            if isinstance(s, C):
                return [val(s.re), val(s.im)]
            if isinstance(s, (int, float, Fraction)):
                f = Fraction(s)
            elif isinstance(s, apoly.P):
                f = apoly.model_value(s, model) if not s.is_int_poly() else _frac(model.eval(s.to_z3(), model_completion=True))
            else:
                t = s.t
                f = _frac(model.eval(t, model_completion=True))
            return [f.numerator, f.denominator]
        out = {}
        for name, d in self.inputs.items():
            syms = d['syms']
            e = {k: v for k, v in d.items() if k != 'syms'}
            if isinstance(syms, np.ndarray):
                flat = [val(s) for s in syms.flat]
                e['values'] = flat
            else:
                e['values'] = val(syms)
            out[name] = e
        return out

    # -- checks
    def _record(self, label, status, model=None, detail=None):
        r = {'label': label, 'status': status}
        if detail:
            r['detail'] = detail
        if model is not None:
            r['inputs'] = self.concretize(model)
        self.results.append(r)
        return r

    def _any_model(self):
        st_, m = cur().check([], self.qtimeout_ms)
        return m if st_ == 'sat' else None

    def eq(self, label, a, b):
        a = self.arr(a)
        b = self.arr(b)
        if tuple(a.shape) != tuple(b.shape):
            m = self._any_model()
            if m is None:
                return self._record(label, 'unknown', None, 'shape mismatch on a path without a witness')
            return self._record(label, 'violated', m, 'shape %s vs %s' % (list(a.shape), list(b.shape)))
        cl = diff_clauses(a, b)
        if not cl:
            cur().stats.final_queries += 1
            cur().stats.final_unsat += 1
            return self._record(label, 'ok', detail='syntactic')
        status, m = cur().check([z3.Or(*cl) if len(cl) > 1 else cl[0]], min(self.qtimeout_ms, 8000) if len(cl) > 1 else self.qtimeout_ms)
        if status == 'unknown' and len(cl) > 1:
            # retry entry by entry
            status = 'unsat'
            for c in cl:
                s1, m1 = cur().check([c], self.qtimeout_ms)
                if s1 == 'sat':
                    status, m = 'sat', m1
                    break
                if s1 == 'unknown':
                    status = 'unknown'
        if status == 'unsat':
            return self._record(label, 'ok', detail='%d entries' % len(cl))
        if status == 'sat':
            return self._record(label, 'violated', m, 'values differ')
        return self._record(label, 'unknown')

    def lemma(self, label, a, b):
        """cut rule: prove a == b with z3, then abstract both terms by one fresh symbol g on the rest of this path
        (rewrites a -> g, b -> g in every later query; g >= 0 is added when b is syntactically a sum of squares).
        Dropping g's definition only weakens later queries (never turns sat into unsat)."""
        r = self.eq(label, a, b)
        if r['status'] == 'ok':
            a = self.arr(a)
            b = self.arr(b)
            ctx = cur()
            for x, y in zip(a.flat, b.flat):
                if x is y:
                    continue
                xs, ys = scalar_terms(x), scalar_terms(y)
                for xt, yt in zip(xs, ys):
                    if xt is None and yt is None:
                        continue
                    xt = xt if xt is not None else z3.RealVal(0)
                    yt = yt if yt is not None else z3.RealVal(0)
                    if xt.eq(yt):
                        continue
                    if z3.is_rational_value(yt):
                        if not z3.is_rational_value(xt):
                            ctx.rewrites.append((xt, yt))
                        continue
                    g = z3.Real(ctx.fresh_name('lemma'))
                    if not z3.is_rational_value(xt):
                        ctx.rewrites.append((xt, g))
                    ctx.rewrites.append((yt, g))
                    if syntactic_nonneg(yt):
                        ctx.pc.append(g >= 0)
        return r

    def sos_fact(self, t):
        """hand z3 the valid fact t >= 0 for a term that is *syntactically* a sum of squares (checked here)"""
        for v in self.arr(t).flat:
            if isinstance(v, (int, float, Fraction)):
                continue
            term = to_z3_real(v)
            if syntactic_nonneg(term):
                cur().pc.append(term >= 0)

    def true(self, label, cond):
        if isinstance(cond, SymBool):
            status, m = cur().check([z3.Not(cond.t)], self.qtimeout_ms)
            if status == 'unsat':
                return self._record(label, 'ok')
            if status == 'sat':
                return self._record(label, 'violated', m, 'condition can be false')
            return self._record(label, 'unknown')
        if isinstance(cond, st.Tensor):
            cond = cond.item()
            return self.true(label, cond)
        cur().stats.final_queries += 1
        if bool(cond):
            cur().stats.final_unsat += 1
            return self._record(label, 'ok', detail='concrete')
        m = self._any_model()
        if m is None:
            # no witness for this path (its feasibility was never established: solver time-out on the way): inconclusive, not a finding
            cur().stats.final_unknown += 1
            return self._record(label, 'unknown', None, 'condition is false on a path without a witness')
        cur().stats.final_sat += 1
        return self._record(label, 'violated', m, 'condition is false on this path')

    def fail(self, label, detail):
        m = self._any_model()
        return self._record(label, 'violated' if m is not None else 'unknown', m, detail)


class ExactEnv(BaseEnv):
    """same scenarios on seeded rational constants (constant z3 terms, no free symbols): used to validate
    symtorch + the scalar layer against real torch.  Must run inside an Explorer (all branches are decided
    by z3.simplify on constants)."""
    mode = 'exact'

    def __init__(self, tt, seed, scalar_mode='Z'):
        BaseEnv.__init__(self, tt)
        self.seed = seed
        self.outputs = []
        self.scalar_mode = scalar_mode

    def _k(self, fr, kind='float'):
        if self.scalar_mode == 'A':
            return apoly.P.const(fr) if fr != 0 else 0
        return Z(z3.RealVal(fr), kind)

    def _arr(self, name, shape, dtype):
        a = np.empty(tuple(shape), dtype=object)
        cplx = dtype.startswith('complex')
        k = 0
        for ix in np.ndindex(*tuple(shape)):
            if cplx:
                a[ix] = C(self._k(seeded_fraction(self.seed, name + '.re', k)), self._k(seeded_fraction(self.seed, name + '.im', k)))
            else:
                a[ix] = self._k(seeded_fraction(self.seed, name, k))
            k += 1
        return a

    def tensor(self, name, shape, dtype='float64'):
        if self.shape_level:
            return self.stensor(name, shape, dtype)
        return st.Tensor(self._arr(name, shape, dtype), DT[dtype])

    def nparray(self, name, shape, dtype='float64'):
        return symnumpy.ndarray(self._arr(name, shape, dtype), DT[dtype])

    def itensor(self, name, shape, lo, hi):
        a = np.empty(tuple(shape), dtype=object)
        k = 0
        for ix in np.ndindex(*tuple(shape)):
            a[ix] = seeded_int(self.seed, name, k, lo, hi)
            k += 1
        return st.Tensor(a, st.int64)

    def int(self, name, lo, hi):
        return seeded_int(self.seed, name, 0, lo, hi)

    def scalar(self, name, kind='float', dtype='float64'):
        if self.shape_level:
            if kind == 'tensor0':
                return self.stensor(name, [], dtype)
            if kind == 'tensor1':
                return self.stensor(name, [1], dtype)
            return 2.5
        if kind == 'complex':
            return C(self._k(seeded_fraction(self.seed, name + '.re', 0)), self._k(seeded_fraction(self.seed, name + '.im', 0)))
        fr = seeded_fraction(self.seed, name, 0)
        if kind == 'npint':
            fr = Fraction(int(fr * 8))
        v = self._k(fr, kind if kind in ('npfloat', 'npfloat32', 'npint') else 'float')
        if kind == 'tensor0':
            return st.Tensor(st._objarr(v), DT[dtype])
        if kind == 'tensor1':
            return st.Tensor(st._objarr([v]), DT[dtype])
        return v

    def assume(self, cond):
        if isinstance(cond, st.Tensor):
            cond = all(bool(v) for v in cond.a.flat)
        if not bool(cond):
            raise PathAbort('assume false')

    def pos_tensor(self, name, shape, pattern, dtype='float64', source='torch', phase_idx=None):
        a = np.empty(tuple(shape), dtype=object)
        a[...] = 0
        for k, ix in enumerate(pattern):
            m = apoly.P.const(abs(seeded_fraction(self.seed, name, k)))
            a[tuple(ix)] = phased(m, phase_idx[k] if phase_idx else k) if dtype.startswith('complex') else m
        if source == 'numpy':
            return symnumpy.ndarray(a, DT[dtype])
        return st.Tensor(a, DT[dtype])

    def pos_scalar(self, name, lo=None, hi=None):
        f = abs(seeded_fraction(self.seed, name, 0))
        if hi is not None:
            f = f * Fraction(hi) / 4
        return apoly.P.const(f)

    def grad_of(self, scalar, leaf):
        from . import autograd
        return st.Tensor(autograd.grad_of(scalar, leaf), leaf.dtype)

    def dim(self, name, lo=1, hi=4):
        return seeded_int(self.seed, name, 0, lo, hi)

    def stensor(self, name, shape, dtype='float64'):
        from . import shapetorch
        return shapetorch.Tensor(list(shape), DT[dtype])

    def internal(self, e):
        from .explorer import Unsupported
        return isinstance(e, Unsupported)

    @staticmethod
    def _fl(v):
        if isinstance(v, (Z, SymInt)):
            return float(_frac(z3.simplify(to_z3_real(v))))
        if isinstance(v, apoly.P):
            return apoly.eval_float(v)
        return float(v)

    @classmethod
    def _num(cls, v):
        if isinstance(v, C):
            return [cls._fl(v.re), cls._fl(v.im)]
        if isinstance(v, complex):
            return [v.real, v.imag]
        if isinstance(v, (bool, np.bool_)):
            return bool(v)
        if isinstance(v, SymBool):
            return bool(z3.is_true(z3.simplify(v.t)))
        return cls._fl(v)

    def eq(self, label, a, b):
        a = self.arr(a)
        b = self.arr(b)
        same_shape = tuple(a.shape) == tuple(b.shape)
        ok = same_shape
        if ok:
            for x, y in zip(a.flat, b.flat):
                u, v = self._num(x), self._num(y)
                uu = complex(*u) if isinstance(u, list) else complex(u)
                vv = complex(*v) if isinstance(v, list) else complex(v)
                if abs(uu - vv) > 1e-9 * max(1.0, abs(uu)):
                    ok = False
                    break
        self.results.append({'label': label, 'status': 'ok' if ok else 'violated'})
        self.outputs.append({'label': label, 'shape': list(a.shape),
                             'lhs': [self._num(v) for v in a.flat] if same_shape else []})

    def lemma(self, label, a, b):
        return self.eq(label, a, b)

    def true(self, label, cond):
        if isinstance(cond, st.Tensor):
            cond = cond.item()
        self.results.append({'label': label, 'status': 'ok' if bool(cond) else 'violated'})
        self.outputs.append({'label': label, 'cond': bool(cond)})

    def fail(self, label, detail):
        self.results.append({'label': label, 'status': 'violated', 'detail': detail})
