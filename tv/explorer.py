"""Path explorer: decision-prefix replay symbolic execution with z3.

One harness body is re-run once per path.  Symbolic booleans call
``branch`` from ``__bool__``; feasibility of each outcome under the current
path condition is decided by a *fresh* z3 solver (incremental solvers answer
``unknown`` on the non-linear queries met here).  A model cache answers most
feasibility questions without a solver call.
"""
import time
import z3

z3.set_param('model.completion', True)
z3.set_param('memory_max_size', 3000)     # MB per process: a query that explodes is reported 'unknown' instead of eating the machine


class PathAbort(BaseException):
    """The current path cannot continue (infeasible / budget)."""


class Unsupported(Exception):
    """The shim does not model something: the path is inconclusive."""


_CUR = None
_XC = [0]


def cur():
    if _CUR is None:
        raise RuntimeError("no active exploration")
    return _CUR


def active():
    return _CUR is not None


class Stats:
    def __init__(self):
        self.queries = 0
        self.solver_s = 0.0
        self.cache_hits = 0
        self.unknown = 0
        self.paths = 0
        self.final_queries = 0
        self.final_unsat = 0
        self.final_sat = 0
        self.final_unknown = 0
        self.xcheck_done = 0
        self.xcheck_agree = 0
        self.xcheck_inconclusive = 0
        self.xcheck_disagree = 0

    def merge(self, o):
        for k, v in o.__dict__.items():
            setattr(self, k, getattr(self, k) + v)

    def as_dict(self):
        d = dict(self.__dict__)
        d['solver_s'] = round(d['solver_s'], 3)
        return d


def solve(constraints, logic=None, timeout_ms=20000, stats=None):
    """Fresh solver per query. Returns ('sat', model) / ('unsat', None) / ('unknown', None)."""
    t0 = time.time()
    try:
        s = z3.SolverFor(logic) if logic else z3.Solver()
    except z3.Z3Exception:
        s = z3.Solver()
    s.set('timeout', int(timeout_ms))
    try:
        for c in constraints:
            s.add(c)
        r = s.check()
    except z3.Z3Exception:
        r = z3.unknown
    dt = time.time() - t0
    if stats is not None:
        stats.queries += 1
        stats.solver_s += dt
    if r == z3.sat:
        return 'sat', s.model()
    if r == z3.unsat:
        return 'unsat', None
    if stats is not None:
        stats.unknown += 1
    return 'unknown', None


class PathResult:
    __slots__ = ('value', 'exc', 'pc', 'decisions', 'unsupported', 'notes', 'maybe')

    def __init__(self):
        self.value = None
        self.exc = None
        self.pc = []
        self.decisions = []
        self.unsupported = None
        self.notes = []
        self.maybe = False


class Explorer:
    def __init__(self, logic='QF_NRA', qtimeout_ms=20000, max_paths=2000, stats=None):
        self.logic = logic
        self.qtimeout_ms = qtimeout_ms
        self.max_paths = max_paths
        self.stats = stats if stats is not None else Stats()
        self.models = []
        # per path
        self.pc = []
        self.prefix = []
        self.pos = 0
        self.decisions = []
        self.counter = {}
        self.aborted = None
        self.maybe = False
        self.stack = []
        self.side = []      # side constraints registered by scalar layers (root symbols)
        self.rewrites = []  # (term, replacement) pairs from proved lemmas (cut rule), applied to every query
        self.notes = []
        self.truncated = False

    # -- symbols -----------------------------------------------------------
    def fresh_name(self, base):
        n = self.counter.get(base, 0)
        self.counter[base] = n + 1
        return '%s!%d' % (base, n)

    # -- feasibility -------------------------------------------------------
    def _rw(self, cs):
        if not self.rewrites:
            return cs
        return [z3.substitute(c, *self.rewrites) for c in cs]

    def _feasible(self, extra):
        cs = self._rw(self.pc + [extra])
        conj = z3.And(*cs) if len(cs) > 1 else cs[0]
        for m in self.models:
            try:
                if z3.is_true(m.eval(conj, model_completion=True)):
                    self.stats.cache_hits += 1
                    return 'sat'
            except z3.Z3Exception:
                pass
        r, m = solve(cs, self.logic, self.qtimeout_ms, self.stats)
        if r == 'sat':
            self.models.insert(0, m)
            del self.models[40:]
        return r

    def assume(self, cond):
        cond = _as_z3(cond)
        cond = z3.simplify(cond)
        if z3.is_true(cond):
            return
        if z3.is_false(cond):
            self.aborted = 'assume-false'
            raise PathAbort('assume false')
        if self.pos < len(self.prefix):
            # replaying: assumption was feasible before
            self.pc.append(cond)
            return
        r = self._feasible(cond)
        if r == 'unsat':
            self.aborted = 'assume-infeasible'
            raise PathAbort('assumption infeasible')
        if r == 'unknown':
            self.maybe = True
        self.pc.append(cond)

    def branch(self, cond):
        if self.aborted:
            raise PathAbort(self.aborted)
        cond = z3.simplify(cond)
        if z3.is_true(cond):
            return True
        if z3.is_false(cond):
            return False
        if self.pos < len(self.prefix):
            d = self.prefix[self.pos]
        else:
            t = self._feasible(cond)
            f = self._feasible(z3.Not(cond))
            if t == 'unknown' or f == 'unknown':
                self.maybe = True
            tt = t != 'unsat'
            ff = f != 'unsat'
            if tt and ff:
                self.stack.append(self.decisions + [False])
                d = True
            elif tt:
                d = True
            elif ff:
                d = False
            else:
                self.aborted = 'infeasible'
                raise PathAbort('path condition infeasible')
        self.decisions.append(d)
        self.pos += 1
        self.pc.append(cond if d else z3.Not(cond))
        return d

    # -- final queries -----------------------------------------------------
    def check(self, extra, timeout_ms=None, logic='same'):
        """Is pc ∧ side ∧ extra satisfiable?  Returns (status, model)."""
        cs = self._rw(list(self.pc) + list(self.side) + [_as_z3(e) for e in extra])
        self.stats.final_queries += 1
        r, m = solve(cs, self.logic if logic == 'same' else logic,
                     timeout_ms or self.qtimeout_ms, self.stats)
        if r == 'sat':
            self.stats.final_sat += 1
        elif r == 'unsat':
            self.stats.final_unsat += 1
        else:
            self.stats.final_unknown += 1
        every = getattr(self, 'xcheck_every', 0)
        _XC[0] += 1
        if every and r in ('sat', 'unsat') and _XC[0] % every == 0:
            self._xcheck(cs, r)
        return r, m

    def _xcheck(self, cs, verdict):
        """second solver: re-decide the query with the z3 4.8.12 binary from its SMT-LIB2 text"""
        import subprocess
        import tempfile
        import os
        s = z3.Solver()
        for c in cs:
            s.add(c)
        fd, path = tempfile.mkstemp(suffix='.smt2', prefix='tv_x_')
        try:
            with os.fdopen(fd, 'w') as f:
                f.write(s.to_smt2())
            p = subprocess.run(['/usr/bin/z3', '-T:20', path], stdout=subprocess.PIPE, stderr=subprocess.STDOUT, timeout=40)
            out = p.stdout.decode(errors='replace')
            first = out.strip().splitlines()[0].strip() if out.strip() else ''
            self.stats.xcheck_done += 1
            if '(error' in out or first not in ('sat', 'unsat'):
                self.stats.xcheck_inconclusive += 1
            elif first == verdict:
                self.stats.xcheck_agree += 1
            else:
                self.stats.xcheck_disagree += 1
        except Exception:
            self.stats.xcheck_done += 1
            self.stats.xcheck_inconclusive += 1
        finally:
            try:
                os.unlink(path)
            except OSError:
                pass

    # -- driver ------------------------------------------------------------
    def explore(self, body):
        """Yield a PathResult per completed path of body()."""
        global _CUR
        self.stack = [[]]
        npaths = 0
        while self.stack:
            if npaths >= self.max_paths:
                self.truncated = True
                break
            self.prefix = self.stack.pop()
            self.pc = []
            self.side = []
            self.rewrites = []
            self.pos = 0
            self.decisions = []
            self.counter = {}
            self.aborted = None
            self.maybe = False
            self.notes = []
            res = PathResult()
            prev = _CUR
            _CUR = self
            try:
                try:
                    res.value = body()
                except PathAbort:
                    pass
                except Unsupported as e:
                    if not self.aborted:
                        self.aborted = 'unsupported: ' + str(e)
                except RecursionError:
                    if not self.aborted:
                        self.aborted = 'unsupported: recursion'
                except Exception as e:   # library exception: a legitimate outcome
                    res.exc = e
                if self.aborted:
                    if str(self.aborted).startswith('unsupported'):
                        res.unsupported = str(self.aborted)
                        res.value = None
                        res.exc = None
                    else:
                        continue
                res.pc = list(self.pc)
                res.decisions = list(self.decisions)
                res.maybe = self.maybe
                res.notes = list(self.notes)
                npaths += 1
                self.stats.paths += 1
                yield res
            finally:
                _CUR = prev


def _as_z3(c):
    if isinstance(c, bool):
        return z3.BoolVal(c)
    if hasattr(c, 't') and isinstance(getattr(c, 't'), z3.ExprRef):
        return c.t
    return c


def unsupported(msg):
    """Mark the current path as unsupported (sticky: survives bare excepts in the code under test)."""
    if _CUR is not None and not _CUR.aborted:
        _CUR.aborted = 'unsupported: ' + msg
    raise Unsupported(msg)


class SymBool:
    __slots__ = ('t',)

    def __init__(self, t):
        self.t = t

    def __bool__(self):
        return cur().branch(self.t)

    def __and__(self, o):
        return SymBool(z3.And(self.t, _as_z3(o)))

    __rand__ = __and__

    def __or__(self, o):
        return SymBool(z3.Or(self.t, _as_z3(o)))

    __ror__ = __or__

    def __invert__(self):
        return SymBool(z3.Not(self.t))

    def __eq__(self, o):
        return SymBool(self.t == _as_z3(o))

    def __ne__(self, o):
        return SymBool(self.t != _as_z3(o))

    __hash__ = None

    def __repr__(self):
        return 'SymBool(%s)' % self.t
