"""Confirm a seeded change and run the checks against it.
   python3-vt -m tv.seedtool <PID> <n> [check ids...]     (uses the scratch worktree /tmp/wt_<PID> and its _seed/ directory)
Steps: apply _seed/change<n>.diff in the worktree; run the repository test-suite (must pass); run _seed/demo<n>.py (must fail);
run ./check <id> with TV_REPO=<worktree> for the listed checks (default: the property's own); revert; run the demo again (must pass).
Writes /verif/seeded/<PID>-<n>/{patch.diff, demo.py, meta.json}."""
import os
import sys
import json
import shutil
import subprocess
import time

VERIF = os.path.dirname(os.path.dirname(os.path.abspath(__file__)))


def sh(cmd, cwd=None, env=None, timeout=3600):
    p = subprocess.run(cmd, shell=True, cwd=cwd, env=env, stdout=subprocess.PIPE, stderr=subprocess.STDOUT, timeout=timeout)
    return p.returncode, p.stdout.decode(errors='replace')


def main():
    pid, n = sys.argv[1], sys.argv[2]
    checks = sys.argv[3:] or [pid]
    wave = os.environ.get('SEED_WAVE', '')
    wt = '/tmp/%s_%s' % (wave or 'wt', pid)
    seed = os.path.join(wt, '_seed')
    diff = os.path.join(seed, 'change%s.diff' % n)
    demo = os.path.join(seed, 'demo%s.py' % n)
    out = {'property': pid, 'n': n, 'checks': {}}
    head = sh('git -C /repo rev-parse HEAD')[1].strip()
    sh('git checkout -- torchtt && git checkout -q --detach %s' % head, cwd=wt)
    out['repo_head'] = head
    rc, o = sh('git checkout -- torchtt && git apply --check %s' % diff, cwd=wt)
    if rc != 0:
        print('patch does not apply:', o)
        sys.exit(2)
    env = dict(os.environ, OMP_NUM_THREADS='2')
    # demo without the change
    rc0, o0 = sh('/venv/bin/python _seed/demo%s.py' % n, cwd=wt, env=env, timeout=600)
    out['demo_without_change_rc'] = rc0
    sh('git apply %s' % diff, cwd=wt)
    try:
        rc1, o1 = sh('/venv/bin/python _seed/demo%s.py' % n, cwd=wt, env=env, timeout=600)
        out['demo_with_change_rc'] = rc1
        out['demo_with_change_tail'] = o1.strip().splitlines()[-3:]
        t0 = time.time()
        rct, ot = sh('/venv/bin/python -m pytest -q -p no:cacheprovider --timeout=900 tests 2>&1 | tail -3', cwd=wt, env=env, timeout=3000)
        out['testsuite_with_change'] = ot.strip().splitlines()[-1] if ot.strip() else ''
        out['testsuite_s'] = round(time.time() - t0)
        for c in checks:
            ev = '/tmp/seed_ev_%s%s_%s' % (wave, pid, n)
            e2 = dict(os.environ, TV_REPO=wt, TV_EVIDENCE_DIR=ev, TV_REPLAY_DIR=ev + '_rp')
            t0 = time.time()
            rcc, oc = sh('%s/check %s' % (VERIF, c), cwd=VERIF, env=e2, timeout=3000)
            lines = oc.strip().splitlines()
            viol = [l for l in lines if l.startswith('VIOLATION')]
            sigs = [l.strip() for l in lines if l.strip().startswith('signature:')]
            out['checks'][c] = {'rc': rcc, 'violations': len(viol), 'signatures': sorted(set(s.split('real-code')[0].strip() for s in sigs))[:8],
                                'summary': [l for l in lines if ' quick: ' in l][-1:] , 'wall_s': round(time.time() - t0)}
            shutil.rmtree(ev, ignore_errors=True)
            shutil.rmtree(ev + '_rp', ignore_errors=True)
    finally:
        sh('git checkout -- torchtt', cwd=wt)
    d = os.path.join(VERIF, 'seeded', '%s-%s%s' % (pid, (wave + '-') if wave else '', n))
    os.makedirs(d, exist_ok=True)
    shutil.copy(diff, os.path.join(d, 'patch.diff'))
    shutil.copy(demo, os.path.join(d, 'demo.py'))
    notes = os.path.join(seed, 'notes.md')
    if os.path.exists(notes):
        shutil.copy(notes, os.path.join(d, 'notes_from_author.md'))
    ok = out['demo_without_change_rc'] == 0 and out['demo_with_change_rc'] != 0 and ' passed' in out['testsuite_with_change'] and 'failed' not in out['testsuite_with_change']
    out['confirmed'] = ok
    out['caught_by'] = [c for c, r in out['checks'].items() if r['rc'] == 1 and r['violations'] > 0]
    out['what_i_ran'] = ['git apply _seed/change%s.diff (scratch worktree)' % n, '/venv/bin/python -m pytest -q -p no:cacheprovider --timeout=900 tests', '/venv/bin/python _seed/demo%s.py (with and without the change)' % n] + \
                        ['TV_REPO=<worktree> ./check %s' % c for c in checks]
    json.dump(out, open(os.path.join(d, 'meta.json'), 'w'), indent=1)
    print(json.dumps(out, indent=1))


if __name__ == '__main__':
    main()
