"""`math` as seen by the loaded torchtt modules.

Everything falls through to the real module for concrete arguments.  For symbolic arguments only the log / exp pair is
modelled, exactly as far as python's semantics need it: math.log(tensor) converts the tensor to a python float (so the
result is cut from the autograd graph) and math.exp of a sum of such logarithms is the product of those floats."""
import math as _math
import types

from .explorer import unsupported


def _symbolic(x):
    from . import symnumpy
    from . import apoly
    if isinstance(x, apoly.P) and x.is_int_poly():
        return False           # symbolic dimensions keep their own float() conversion (shape level)
    if type(x).__module__.endswith('shapetorch'):
        return False
    return symnumpy._symbolic_arg(x)


class LogVal:
    """log of a product of (cut) scalars, with integer multiplicities"""
    __array_ufunc__ = None

    def __init__(self, factors):
        self.factors = list(factors)          # [(value, exponent)]

    def __add__(self, o):
        if isinstance(o, LogVal):
            return LogVal(self.factors + o.factors)
        if isinstance(o, (int, float)) and o == 0:
            return self
        unsupported('sum of a symbolic logarithm and a number')

    __radd__ = __add__

    def __neg__(self):
        return LogVal([(v, -e) for v, e in self.factors])

    def __sub__(self, o):
        return self + (-o)

    def __eq__(self, o):
        if isinstance(o, (int, float)):
            return False           # log(x) == 0 only for x == 1: the code under test uses this to detect "nothing accumulated"
        return NotImplemented

    def __ne__(self, o):
        r = self.__eq__(o)
        return r if r is NotImplemented else not r

    __hash__ = None


def _scalar_of(x):
    if type(x).__name__ == 'Tensor' and hasattr(x, 'a'):
        if x.a.size != 1:
            raise ValueError('only one element tensors can be converted to Python scalars')
        x = x.a.reshape(-1)[0]
    from . import autograd
    from . import apoly
    if autograd.ENABLED and isinstance(x, apoly.P):
        return autograd.cut_value(x, 'pyfloat')        # float(tensor): a python number, not part of the autograd graph
    return x


def log(x, base=None):
    if not _symbolic(x):
        return _math.log(x) if base is None else _math.log(x, base)
    if base is not None:
        unsupported('math.log with a base on symbolic data')
    return LogVal([(_scalar_of(x), 1)])


def exp(x):
    if isinstance(x, LogVal):
        r = 1
        for v, e in x.factors:
            for _ in range(abs(e)):
                r = r * v if e > 0 else r / v
        return r
    if _symbolic(x):
        unsupported('math.exp on symbolic data')
    return _math.exp(x)


class _Facade(types.ModuleType):
    def __getattr__(self, name):
        v = getattr(_math, name)
        if callable(v):
            def g(*a, **k):
                if any(_symbolic(t) for t in a):
                    unsupported('math.%s on symbolic data is not modelled' % name)
                return v(*a, **k)
            return g
        return v


facade = _Facade('math')
facade.log = log
facade.exp = exp
