"""C12 (structural clause) — amen_solve returns a well-formed TT tensor of the shape of b and raises nothing."""

THOROUGH_SEEDS = 1


def cases(tier, seed):
    th = tier == 'thorough'
    cs = []
    structs = [([3], [1, 1], [1, 1]), ([2, 3], [1, 2, 1], [1, 2, 1]), ([2, 2], [1, 1, 1], [1, 3, 1]), ([2, 2, 2], [1, 2, 2, 1], [1, 1, 2, 1])]
    if th:
        structs += [([3, 3], [1, 3, 1], [1, 2, 1]), ([2, 3, 2], [1, 2, 1, 1], [1, 2, 2, 1])]
    for N, RA, Rb in structs:
        d = len(N)
        for prec in (None, 'c', 'r'):
            for mf in (500, 0):
                for ls in ((1, 2) if mf == 0 else (1,)):
                    if d >= 3 and not th and (prec == 'r' or ls == 2):
                        continue
                    kw = {'nswp': 1, 'preconditioner': prec, 'max_full': mf, 'local_solver': ls}
                    cs.append({'scen': 'solve_structure', 's': {'op': 'amen_solve', 'N': N, 'RA': RA, 'Rb': Rb, 'kw': kw}})
        if d <= 2:
            cs.append({'scen': 'solve_structure', 's': {'op': 'amen_solve', 'N': N, 'RA': RA, 'Rb': Rb, 'kw': {'nswp': 2}}})
            cs.append({'scen': 'solve_structure', 's': {'op': 'amen_solve', 'N': N, 'RA': RA, 'Rb': Rb, 'kw': {'nswp': 1}, 'guess': [1] + [3] * (d - 1) + [1]}})
            cs.append({'scen': 'solve_structure', 's': {'op': 'amen_solve', 'N': N, 'RA': RA, 'Rb': Rb, 'kw': {'nswp': 1, 'max_full': 0, 'use_single_precision': True}}})
            cs.append({'scen': 'solve_structure', 's': {'op': 'amen_solve', 'N': N, 'RA': RA, 'Rb': Rb, 'kw': {'nswp': 1, 'kickrank': 1, 'kick2': 1}}})
    # x0 = b
    cs.append({'scen': 'solve_structure', 's': {'op': 'amen_solve', 'N': [2, 3], 'RA': [1, 2, 1], 'Rb': [1, 2, 1], 'kw': {'nswp': 1}, 'guess_is': 'operand'}})
    cs.append({'scen': 'solve_structure', 's': {'op': 'amen_solve', 'N': [3], 'RA': [1, 1], 'Rb': [1, 1], 'kw': {'nswp': 1}, 'guess_is': 'operand'}})
    return cs


def opts(tier):
    return {'logic': 'QF_LIA', 'qtimeout_ms': 10000, 'final_timeout_ms': 30000, 'max_paths': 8000 if tier == 'quick' else 40000,
            'case_timeout_s': 300 if tier == 'quick' else 1200, 'scalar_mode': 'Z',
            'setup': {'factor_mode': 'havoc', 'fresh': 'havoc', 'select_mode': 'ite'}}


def sig(case, label):
    s = case['s']
    kw = s.get('kw', {})
    return 'solve_structure:%s:d%d:prec=%s:full=%s:%s' % (s['op'], len(s['N']), kw.get('preconditioner'), kw.get('max_full', 500) > 0, label)


def meta(tier):
    from .. import loader
    tt = loader.load()
    import torchtt.solvers as so
    fns = [so.amen_solve, so._LinearOp.matvec, so._LinearOp.__init__]
    return {
        'overapprox': True, 'functions': loader.functions_encoded(fns), 'sig': sig,
        'bounds': 'CLAUSE DECIDED: only "amen_solve(A, b) returns x of the right shape (a well-formed TT tensor with the modes of b) and raises nothing, with every preconditioner option (None, c, r), the direct and both '
                  'iterative local solvers, with or without an initial guess". orders 1..3 (thorough 4), mode sizes 2..3, operator/right-hand-side ranks 1..3, nswp 1..2, max_full in {0, 500}; every floating value is havoc, '
                  'so all outcomes of the local solves, truncations, residual and convergence tests are covered',
        'outside': 'the residual bound of C12 (convergence of an iterative floating-point solver: not encodable); more than 2 sweeps; the Krylov loops of GMRES/BiCGSTAB themselves (replaced by a contract); the C++ backend',
        'assumptions': ['floating data abstracted to HAVOC (over-approximation)', 'rank_chop replaced by "any rank in [1, len(s)]" (kernel decided under C01)',
                        'gmres_restart / BiCGSTAB_reset replaced by: apply the local operator once (its shape calculus, incl. preconditioner, is executed), return a havoc vector of the start vector\'s shape',
                        'z3 sat/unsat verdicts; unknown counted inconclusive'],
        'tv_max': 0,
        'explanation': 'Per path the shape calculus of the real source is executed exactly; an exception or a malformed result on any path is a candidate, replayed by running the real solver on a well conditioned system of the same structure.',
    }
