"""C02 — rounding never exceeds eps, never raises a rank, leaves its operand intact."""
import random
import itertools


def partial_perm(r1, r2, rng, full=False):
    """random partial permutation pattern: list of (a, b) with distinct a's and distinct b's"""
    k = min(r1, r2)
    rows = rng.sample(range(r1), k)
    cols = rng.sample(range(r2), k)
    pairs = list(zip(rows, cols))
    if not full:
        keep = rng.randint(1, k)
        pairs = rng.sample(pairs, keep)
    return pairs


def gen_tt_pattern(N, R, rng, M=None, dense_slices=False, skip=0.25):
    pats = []
    for k in range(len(N)):
        p = []
        idx = [(i,) for i in range(N[k])] if M is None else [(i, j) for i in range(M[k]) for j in range(N[k])]
        for mid in idx:
            if rng.random() < skip and len(idx) > 1:
                continue
            for a, b in partial_perm(R[k], R[k + 1], rng, full=dense_slices):
                p.append((a,) + mid + (b,))
        if not p:
            p.append((0,) + idx[0] + (0,))
        pats.append(sorted(set(p)))
    return pats


def all_ranks_used(pats, R):
    for k, pk in enumerate(pats):
        if {p[0] for p in pk} != set(range(R[k])) or {p[-1] for p in pk} != set(range(R[k + 1])):
            return False
    return True

THOROUGH_SEEDS = 8


def cases(tier, seed):
    rng = random.Random(seed + 2)
    th = tier == 'thorough'
    cs = []
    structs = [([3], [1, 1]), ([2, 2], [1, 2, 1]), ([2, 3], [1, 2, 1]), ([3, 2], [1, 3, 1]), ([2, 2, 2], [1, 2, 2, 1]), ([2, 1, 2], [1, 2, 2, 1]),
               ([1, 2, 2], [1, 1, 2, 1]), ([2, 2, 2], [1, 2, 1, 1]), ([2, 3, 2], [1, 2, 3, 1]), ([2, 2, 2, 2], [1, 2, 2, 2, 1])]
    if th:
        structs += [([3, 3, 3], [1, 3, 3, 1]), ([2, 2, 2, 2], [1, 2, 3, 2, 1]), ([2, 2, 2, 2, 2], [1, 2, 2, 2, 2, 1]), ([2, 1, 1, 2], [1, 2, 2, 2, 1])]
    for N, R in structs:
        d = len(N)
        for rep in range(3 if not th else 8):
            pats = gen_tt_pattern(N, R, rng, dense_slices=(rep == 0))
            for _ in range(40):
                # unused rank indices (rank-deficient cores) are expensive beyond order 2: kept for small cases and the explicit ones below
                if all_ranks_used(pats, R) or (d <= 2) or (th and d <= 3):
                    break
                pats = gen_tt_pattern(N, R, rng, dense_slices=(rep == 0))
            base = {'N': N, 'R': R, 'patterns': [[list(p) for p in pk] for pk in pats]}
            if d >= 3 and rep != 1:
                # symbolic magnitudes in two cores (three in thorough), fixed magnitudes of different scale elsewhere: keeps the polynomial degree low
                base['sym_cores'] = sorted(rng.sample(range(d), min(d, 2 if not th else 3)))
            cs.append({'scen': 'tt_round', 's': dict(base)})
            if rep == 0:
                cs.append({'scen': 'tt_round', 's': dict(base, eps='default')})
                cs.append({'scen': 'tt_round', 's': dict(base, eps='zero')})
            if d >= 2 and rep == 1:
                for rm in (1, 2, 3):
                    cs.append({'scen': 'tt_round', 's': dict(base, rmax=rm)})
            if d >= 2 and rep == 2:
                cs.append({'scen': 'tt_round', 's': dict(base, rmax=[1] + [1 + (k % 2) for k in range(d - 1)] + [1])})
    # arbitrary sign-free entries, rank-1 profiles (over-parameterised only through scale): every factorization input is a single row/column
    for N, M in [([3], None), ([2, 3], None), ([2, 1, 2], None), ([2, 2], [2, 1])] + ([([2, 2, 2, 2], None), ([1, 2, 2], [2, 1, 2])] if th else []):
        base = {'N': N, 'R': [1] * (len(N) + 1), 'patterns': [], 'general': True}
        if M:
            base['M'] = M
        cs.append({'scen': 'tt_round', 's': dict(base)})
        cs.append({'scen': 'tt_round', 's': dict(base, eps='zero')})
        cs.append({'scen': 'tt_round', 's': dict(base, rmax=1)})
    # diagonal cores: r distinct singular values at the bond, r = 3, 4 (a tie at the threshold then costs more than the allowance)
    for n in (3, 4):
        diag = [[[0, i, i] for i in range(n)], [[i, i, 0] for i in range(n)]]
        cs.append({'scen': 'tt_round', 's': {'N': [n, n], 'R': [1, n, 1], 'patterns': diag}})
        cs.append({'scen': 'tt_round', 's': {'N': [n, n], 'R': [1, n, 1], 'patterns': diag, 'sym_cores': [1]}})
    d3 = [[[0, i, i] for i in range(3)], [[i, i, i] for i in range(3)], [[i, i, 0] for i in range(3)]]
    cs.append({'scen': 'tt_round', 's': {'N': [3, 3, 3], 'R': [1, 3, 3, 1], 'patterns': d3, 'sym_cores': [0]}})
    # rank-deficient / over-parameterised: a rank index that is never used (zero column) and the zero tensor
    cs.append({'scen': 'tt_round', 's': {'N': [2, 2], 'R': [1, 3, 1], 'patterns': [[[0, 0, 0], [0, 1, 1]], [[0, 0, 0], [1, 1, 0]]]}})
    cs.append({'scen': 'tt_round', 's': {'N': [2, 2, 2], 'R': [1, 2, 2, 1], 'patterns': [[[0, 0, 0], [0, 1, 0]], [[0, 0, 0], [0, 1, 1]], [[0, 0, 0], [1, 1, 0]]]}})
    # unused rank index in front of the data (first column of the first unfolding is zero, its row in the next core carries data or not)
    cs.append({'scen': 'tt_round', 's': {'N': [2, 2], 'R': [1, 3, 1], 'patterns': [[[0, 0, 1], [0, 1, 2]], [[1, 0, 0], [2, 1, 0]]]}})
    cs.append({'scen': 'tt_round', 's': {'N': [2, 2, 2], 'R': [1, 3, 2, 1], 'patterns': [[[0, 0, 1], [0, 1, 2]], [[1, 0, 0], [2, 1, 1]], [[0, 0, 0], [1, 1, 0]]], 'sym_cores': [0, 2]}})
    # sums with the zero tensor: zero blocks in front of / behind the data in every core
    for N, R, M in [([2, 2], [1, 2, 1], None), ([2, 2, 2], [1, 2, 2, 1], None), ([2, 1], [1, 2, 1], [1, 2])] + ([([2, 3, 2], [1, 2, 2, 1], None)] if th else []):
        pats = gen_tt_pattern(N, R, rng, M=M, dense_slices=True, skip=0)
        base = {'N': N, 'R': R, 'patterns': [[list(p) for p in pk] for pk in pats]}
        if M:
            base['M'] = M
        if len(N) >= 3:
            base['sym_cores'] = [0, len(N) - 1]
        for where in ('front', 'behind'):
            cs.append({'scen': 'tt_round', 's': dict(base, plus_zero=where)})
            cs.append({'scen': 'tt_round', 's': dict(base, plus_zero=where, eps='zero')})
    # an interior mode of size one between two bonds of rank 3: both bonds see the same unfolding, the budget eps/sqrt(d-1) is spent twice
    dd = [[[0, i, i] for i in range(3)], [[i, 0, i] for i in range(3)], [[i, i, 0] for i in range(3)]]
    cs.append({'scen': 'tt_round', 's': {'N': [3, 1, 3], 'R': [1, 3, 3, 1], 'patterns': dd, 'sym_cores': [0]}})
    cs.append({'scen': 'tt_round', 's': {'N': [3, 1, 3], 'R': [1, 3, 3, 1], 'patterns': dd, 'sym_cores': [1]}})
    if th:
        cs.append({'scen': 'tt_round', 's': {'N': [3, 1, 3], 'R': [1, 3, 3, 1], 'patterns': dd}})
        cs.append({'scen': 'tt_round', 's': {'N': [3, 1, 1, 3], 'R': [1, 3, 3, 3, 1], 'patterns': [dd[0], dd[1], dd[1], dd[2]], 'sym_cores': [0]}})
    # operators
    for M, N, R in [([2], [2], [1, 1]), ([2, 2], [2, 2], [1, 2, 1]), ([2, 1], [1, 2], [1, 2, 1]), ([1, 2, 2], [2, 1, 2], [1, 2, 2, 1])]:
        for rep in range(2 if not th else 5):
            pats = gen_tt_pattern(N, R, rng, M=M, dense_slices=(rep == 0))
            for _ in range(40):
                if all_ranks_used(pats, R) or len(N) <= 2:
                    break
                pats = gen_tt_pattern(N, R, rng, M=M, dense_slices=(rep == 0))
            base = {'N': N, 'M': M, 'R': R, 'patterns': [[list(p) for p in pk] for pk in pats]}
            if len(N) >= 3:
                base['sym_cores'] = sorted(rng.sample(range(len(N)), 1))
            cs.append({'scen': 'tt_round', 's': dict(base)})
            if len(N) >= 2 and rep == 1:
                for rm in (1, 2):
                    cs.append({'scen': 'tt_round', 's': dict(base, rmax=rm)})
    # a weak component (second row of the middle core) aligned with the dominant direction of the last core, behind a bond of rank 3 that is not cut:
    # the truncation at the first bond must be measured against the norm of the tensor, not of an orthogonal factor
    aligned = [[[0, 0, 0], [0, 1, 1]], [[0, 0, 0], [0, 1, 1], [1, 1, 0], [0, 2, 2]], [[0, 0, 0], [1, 1, 0], [2, 2, 0]]]
    for sc_ in ([1, 2], [1], None if th else [2]):
        b_ = {'N': [2, 3, 3], 'R': [1, 2, 3, 1], 'patterns': aligned}
        if sc_ is not None:
            b_['sym_cores'] = sc_
        cs.append({'scen': 'tt_round', 's': b_})
    # eps = 0 / default with per-bond caps whose binding entry is not the largest one
    for N, R, rm in [([2, 2, 2], [1, 2, 2, 1], [1, 1, 2, 1]), ([2, 2, 2], [1, 2, 2, 1], [1, 2, 1, 1]), ([2, 2, 2, 2], [1, 2, 2, 2, 1], [1, 1, 3, 2, 1])]:
        pats = gen_tt_pattern(N, R, rng, dense_slices=True, skip=0)
        base = {'N': N, 'R': R, 'patterns': [[list(p) for p in pk] for pk in pats], 'rmax': rm}
        cs.append({'scen': 'tt_round', 's': dict(base, eps='zero')})
        cs.append({'scen': 'tt_round', 's': dict(base, eps='default')})
    # operators whose bond rank lies between r*N and r*M*N of the core in front of it (the unfolding r*M*N x r' is tall although r*N < r'), eps = 0 / default / symbolic
    for M, N, R, pats in [([3, 2], [1, 2], [1, 2, 1], [[[0, 0, 0, 0], [0, 1, 0, 1]], [[0, 0, 0, 0], [1, 1, 1, 0]]]),
                          ([3, 2], [1, 1], [1, 2, 1], [[[0, 0, 0, 0], [0, 2, 0, 1]], [[0, 0, 0, 0], [1, 1, 0, 0]]]),
                          ([2, 3, 2], [1, 1, 2], [1, 2, 2, 1], [[[0, 0, 0, 0], [0, 1, 0, 1]], [[0, 0, 0, 0], [1, 2, 0, 1]], [[0, 0, 0, 0], [1, 1, 1, 0]]])]:
        base = {'N': N, 'M': M, 'R': R, 'patterns': pats}
        cs.append({'scen': 'tt_round', 's': dict(base, eps='zero')})
        cs.append({'scen': 'tt_round', 's': dict(base, eps='default')})
        cs.append({'scen': 'tt_round', 's': dict(base)})
    # histories on one object: round, (replace a core,) round again
    for N, R, k in [([2, 2], [1, 2, 1], 0), ([2, 2], [1, 2, 1], 1), ([2, 2, 2], [1, 2, 2, 1], 1), ([2, 3], [1, 2, 1], 1)]:
        pats = gen_tt_pattern(N, R, rng, dense_slices=True, skip=0)
        base = {'N': N, 'R': R, 'patterns': [[list(p) for p in pk] for pk in pats]}
        cs.append({'scen': 'tt_round', 's': dict(base, prelude='round_set_core', set_core=k)})
        cs.append({'scen': 'tt_round', 's': dict(base, prelude='round')})
        # the operand is the outcome of an earlier rounding; the second call asks for a rank cap / the same or a tighter tolerance
        cs.append({'scen': 'tt_round', 's': dict(base, prelude='round_chain', eps0='zero', eps='zero', rmax=1)})
        cs.append({'scen': 'tt_round', 's': dict(base, prelude='round_chain', eps0='zero', rmax=1)})
        if k == 0:
            cs.append({'scen': 'tt_round', 's': dict(base, prelude='round_chain', eps0='zero')})
    # complex cores whose unfolding has columns with u^T u = 1 but u^H u != 1 within reach of the solver (phases 1 and i in one column):
    # any shortcut that recognises isometries must use the Hermitian product
    for N, R, pats in [([4, 2], [1, 1, 1], [[[0, 0, 0], [0, 1, 0], [0, 2, 0], [0, 3, 0]], [[0, 0, 0], [0, 1, 0]]]),
                       ([4, 2, 2], [1, 1, 2, 1], [[[0, 0, 0], [0, 1, 0], [0, 2, 0], [0, 3, 0]], [[0, 0, 0], [0, 1, 1]], [[0, 0, 0], [1, 1, 0]]]),
                       ([4, 3], [1, 2, 1], [[[0, 0, 0], [0, 1, 0], [0, 2, 0], [0, 3, 0]], [[0, 0, 0], [0, 1, 0], [1, 2, 0]]])]:
        cs.append({'scen': 'tt_round', 's': {'N': N, 'R': R, 'patterns': pats, 'dtype': 'complex128'}})
        cs.append({'scen': 'tt_round', 's': {'N': N, 'R': R, 'patterns': pats, 'dtype': 'complex128', 'eps': 'default'}})
    # complex128 copies of a sample (symbolic positive moduli with fixed rational unit phases; arbitrary complex entries for the rank-1 'general' cases)
    from .C03 import _pick
    pool = [c for c in cs if 'dtype' not in c['s']]
    for c in _pick(pool, 24 if not th else 60, rng):
        cs.append({'scen': 'tt_round', 's': dict(c['s'], dtype='complex128')})
    return cs


def opts(tier):
    return {'logic': 'QF_NRA', 'qtimeout_ms': 20000, 'final_timeout_ms': 60000 if tier == 'quick' else 240000,
            'max_paths': 600 if tier == 'quick' else 3000, 'case_timeout_s': 150 if tier == 'quick' else 1500,
            'scalar_mode': 'A', 'setup': {'factor_mode': 'exact', 'signs': False}}


def sig(case, label):
    s = case['s']
    return 'tt_round:%s:%s:%s%s:%s' % ('ttm' if 'M' in s else 'tt', s.get('eps', 'sym'), 'rmax' if s.get('rmax') else 'normax', ':' + s['prelude'] if s.get('prelude') else '',
                                     label.rstrip('0123456789').rstrip('_'))


def meta(tier):
    from .. import loader
    tt = loader.load()
    import torchtt._decomposition as dec
    fns = [tt.TT.round, dec.round_tt, dec.lr_orthogonal, dec.rank_chop, dec.SVD, dec.QR]
    return {
        'functions': loader.functions_encoded(fns), 'sig': sig,
        'bounds': 'TT tensors / TT matrices of order 1..4 (thorough 5), sizes <= 3, ranks <= 3, whose cores are sparse with symbolic positive magnitudes of arbitrary relative scale (every core, or for order >= 3 in two thirds of the cases two cores (thorough: three) with the others fixed magnitudes from {1,2,3}) '
                  '(each mode slice a scaled partial permutation: the structurally-orthogonal class on which QR and SVD are exact in the model), incl. unused rank indices and non-orthogonal '
                  'cores; eps symbolic in [0,1), the default, and literal 0; rmax absent, each of 1..3, or a per-bond list',
        'outside': 'cores outside the structurally-orthogonal class (general SVD not encodable), complex dtypes, IEEE rounding',
        'assumptions': ['torch.linalg.qr/svd replaced by the exact structural models of tv/factor.py', 'symtorch validated per run against real torch',
                        'z3 sat/unsat verdicts; unknown counted inconclusive'],
        'tv_max': 50,
        'explanation': 'z3 decides, per path of lr_orthogonal/round_tt/rank_chop, EXISTS magnitudes, eps, rmax. a rank clause, the error bound or operand preservation fails.',
    }
