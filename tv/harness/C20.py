"""C20 — the TT linear layer computes the dense affine map it represents."""
import random
from .C03 import _rank_profiles, _pick

THOROUGH_SEEDS = 1


def cases(tier, seed):
    rng = random.Random(seed + 20)
    th = tier == 'thorough'
    cs = []
    structs = [([3], [2]), ([1], [3]), ([2, 3], [3, 1]), ([1, 2], [2, 2]), ([3, 2], [1, 2]), ([2, 1, 2], [1, 3, 2]), ([2, 2, 2], [2, 1, 1]), ([1, 1, 3], [2, 1, 2]), ([1, 3], [3, 2])]
    if th:
        structs += [([2, 3, 2], [3, 2, 1]), ([2, 1, 2, 2], [1, 2, 2, 1]), ([4, 2], [2, 5]), ([5], [4]), ([3, 4], [5, 1]), ([2, 2, 2, 2], [2, 1, 2, 1]), ([5, 2, 1], [1, 2, 3]), ([1, 1], [4, 4])]
    for sin, sout in structs:
        d = len(sin)
        profs = _rank_profiles(d, [1, 2] if d >= 3 else [1, 2, 3])
        for rank in (profs if (th or len(profs) <= 4) else _pick(profs, 3, rng)):
            for batch in ([], [2], [2, 1], [1, 2, 2]):
                if len(batch) == 3 and d == 3 and not th:
                    continue
                for init in ('He', 'Glo'):
                    if init == 'Glo' and batch not in ([], [2]) and not th:
                        continue
                    cs.append({'scen': 'tt_layer', 's': {'size_in': sin, 'size_out': sout, 'rank': rank, 'batch': batch, 'init': init,
                                                         'dtype': 'float64', 'call': len(batch) % 2 == 0}})
        cs.append({'scen': 'tt_layer', 's': {'size_in': sin, 'size_out': sout, 'rank': [1] + [2] * (d - 1) + [1], 'batch': [2], 'init': 'He', 'dtype': 'float32'}})
        for mode in ('eval', 'eval_then_update', 'load_state_dict'):
            cs.append({'scen': 'tt_layer', 's': {'size_in': sin, 'size_out': sout, 'rank': [1] + [2] * (d - 1) + [1], 'batch': [2], 'init': 'Glo' if mode == 'eval' else 'He', 'dtype': 'float64', 'mode': mode, 'call': True}})
    # four modes, growing at the left end / shrinking at the right end (contraction-order heuristics), neighbouring output modes equal and different
    for sin, sout in [([1, 2, 2, 3], [3, 2, 2, 1]), ([1, 2, 3, 2], [2, 3, 2, 1])] + ([([2, 3, 3, 4], [4, 3, 3, 2]), ([3, 2, 2, 1], [1, 2, 2, 3])] if th else []):
        for rank in ([1, 1, 1, 1, 1], [1, 2, 1, 2, 1]):
            for batch in ([], [2]):
                cs.append({'scen': 'tt_layer', 's': {'size_in': sin, 'size_out': sout, 'rank': rank, 'batch': batch, 'init': 'He', 'dtype': 'float64', 'call': True}})
    # the same layer object called twice with different numbers of batch dimensions
    for sin, sout in [([3, 3], [3, 3]), ([2, 3], [3, 1]), ([3], [2]), ([2, 2, 2], [2, 2, 2])]:
        d = len(sin)
        for fb, b in (([2], []), ([], [2]), ([2, 1], [2]), ([3], [2, 3])):
            cs.append({'scen': 'tt_layer', 's': {'size_in': sin, 'size_out': sout, 'rank': [1] + [2] * (d - 1) + [1], 'batch': b, 'first_batch': fb, 'init': 'He', 'dtype': 'float64', 'call': True}})
    # a registered core replaced by a new Parameter object
    for sin, sout in [([2, 3], [3, 1]), ([3], [2]), ([2, 2, 2], [1, 2, 2])]:
        d = len(sin)
        for k in (0, d - 1):
            cs.append({'scen': 'tt_layer', 's': {'size_in': sin, 'size_out': sout, 'rank': [1] + [2] * (d - 1) + [1], 'batch': [2], 'init': 'He', 'dtype': 'float64', 'call': True, 'replace_core': k}})
    # deep copies of a layer; constructor arguments passed by position
    for sin, sout in [([2, 3], [3, 1]), ([3], [2]), ([2, 1, 2], [1, 3, 2])]:
        d = len(sin)
        base = {'size_in': sin, 'size_out': sout, 'rank': [1] + [2] * (d - 1) + [1], 'batch': [2], 'dtype': 'float64', 'call': True}
        for init in ('He', 'Glo'):
            cs.append({'scen': 'tt_layer', 's': dict(base, init=init, mode='deepcopy')})
            cs.append({'scen': 'tt_layer', 's': dict(base, init=init, ctor='tuples')})
            for ctor in ('positional', 'positional_dtype'):
                for dt in ('float64', 'float32'):
                    cs.append({'scen': 'tt_layer', 's': dict(base, init=init, ctor=ctor, dtype=dt)})
    # precision changed after construction
    for sin, sout in [([2, 3], [3, 1]), ([3], [2])]:
        d = len(sin)
        for dt, to in (('float32', 'float64'), ('float64', 'float32')):
            for how in ('method', 'to_kw', 'to_pos'):
                cs.append({'scen': 'tt_layer', 's': {'size_in': sin, 'size_out': sout, 'rank': [1] + [2] * (d - 1) + [1], 'batch': [2], 'init': 'He', 'dtype': dt, 'convert': how, 'convert_to': to, 'call': True}})
        cs.append({'scen': 'tt_layer', 's': {'size_in': sin, 'size_out': sout, 'rank': [1] + [2] * (d - 1) + [1], 'batch': [], 'init': 'Glo', 'dtype': 'float32', 'convert': 'to_kw', 'convert_to': 'float64',
                                             'mode': 'load_state_dict', 'call': True}})
    return cs


def opts(tier):
    return {'logic': 'QF_NRA', 'qtimeout_ms': 20000, 'final_timeout_ms': 60000 if tier == 'quick' else 240000,
            'max_paths': 16, 'case_timeout_s': 300 if tier == 'quick' else 1500}


def meta(tier):
    from .. import loader
    tt = loader.load()
    L = tt.nn.LinearLayerTT
    fns = [L.__init__, L.forward, tt.randn]
    return {
        'functions': loader.functions_encoded(fns),
        'bounds': '1..3 modes (thorough 4) with sizes 1..3 (thorough 5), rectangular; every rank profile <= 3 (<= 2 for 3+ modes); 0..3 leading batch dims; '
                  'both initialisers; float64 and float32 tags; weights = fresh symbols scaled by the initialiser constant (any weight value), bias and input symbolic; deep copies; constructor arguments by position',
        'outside': 'IEEE rounding; the gradient clause is decided under C15 (autograd model); sizes > 5',
        'assumptions': ['symtorch models torch incl. nn.Module parameter registration (validated per run against real torch)',
                        'torch.randn = fresh unconstrained symbols', 'z3 sat/unsat verdicts; unknown counted inconclusive'],
        'tv_max': 60,
        'explanation': 'z3 decides EXISTS weights, bias, input. forward(x) != einsum(W, x) + b, per structure.',
    }
