"""C13 (structural clause) — x / y, scalar / y and elementwise_divide return a well-formed TT tensor of the same shape and raise nothing."""

THOROUGH_SEEDS = 1


def cases(tier, seed):
    th = tier == 'thorough'
    cs = []
    # (mode sizes from 1: slices such as x[:, :, 1:2] have singleton modes)
    structs = [([3], [1, 1], [1, 1]), ([2, 3], [1, 2, 1], [1, 2, 1]), ([2, 2], [1, 1, 1], [1, 3, 1]), ([2, 2, 2], [1, 2, 2, 1], [1, 1, 2, 1]),
               ([3, 1], [1, 2, 1], [1, 1, 1]), ([1, 3], [1, 1, 1], [1, 1, 1]), ([2, 1, 2], [1, 2, 2, 1], [1, 1, 1, 1]), ([1], [1, 1], [1, 1])]
    if th:
        structs += [([3, 3], [1, 3, 1], [1, 2, 1]), ([2, 3, 2], [1, 2, 1, 1], [1, 2, 2, 1])]
    for N, RA, Rb in structs:
        d = len(N)
        for prec in (None, 'c'):
            cs.append({'scen': 'solve_structure', 's': {'op': 'elementwise_divide', 'N': N, 'RA': RA, 'Rb': Rb, 'kw': {'nswp': 1, 'preconditioner': prec}}})
        if d <= 2 or th:
            cs.append({'scen': 'solve_structure', 's': {'op': 'elementwise_divide', 'N': N, 'RA': RA, 'Rb': Rb, 'kw': {'nswp': 2}}})
            cs.append({'scen': 'solve_structure', 's': {'op': 'elementwise_divide', 'N': N, 'RA': RA, 'Rb': Rb, 'kw': {'nswp': 1}, 'guess': [1] + [2] * (d - 1) + [1]}})
            cs.append({'scen': 'solve_structure', 's': {'op': 'elementwise_divide', 'N': N, 'RA': RA, 'Rb': Rb, 'kw': {'nswp': 1, 'kick': 1}}})
        # the operators use 50 sweeps: unrolled once (twice in the thorough tier)
        for op in ('divide', 'rdivide'):
            cs.append({'scen': 'solve_structure', 's': {'op': op, 'N': N, 'RA': RA, 'Rb': Rb, 'unroll': 1 if (not th or d >= 3) else 2}})
    # the numerator doubles as the starting tensor
    cs.append({'scen': 'solve_structure', 's': {'op': 'elementwise_divide', 'N': [2, 3], 'RA': [1, 2, 1], 'Rb': [1, 2, 1], 'kw': {'nswp': 1}, 'guess_is': 'operand'}})
    return cs


def opts(tier):
    return {'logic': 'QF_LIA', 'qtimeout_ms': 10000, 'final_timeout_ms': 30000, 'max_paths': 8000 if tier == 'quick' else 40000,
            'case_timeout_s': 300 if tier == 'quick' else 1200, 'scalar_mode': 'Z',
            'setup': {'factor_mode': 'havoc', 'fresh': 'havoc', 'select_mode': 'ite'}}


def sig(case, label):
    s = case['s']
    return 'solve_structure:%s:d%d:%s' % (s['op'], len(s['N']), label)


def meta(tier):
    from .. import loader
    tt = loader.load()
    import torchtt._division as dv
    fns = [dv.amen_divide, tt.elementwise_divide, tt.TT.__truediv__, tt.TT.__rtruediv__]
    return {
        'overapprox': True, 'functions': loader.functions_encoded(fns), 'sig': sig,
        'bounds': 'CLAUSE DECIDED: only "x / y, scalar / y and elementwise_divide(x, y, ...) return a TT tensor of the same shape (well-formed rank chain) and raise nothing". ("Dividing by a scalar is exact" is decided under C03.) '
                  'orders 1..3, mode sizes 1..3 (singleton modes first, last and interior), ranks 1..3, nswp 1..2, preconditioner None / c, optional initial guess; the 50-sweep loop of the operators is unrolled 1 (thorough 2) times; every floating value is havoc',
        'outside': 'the accuracy clause of C13 (an AMEn solve: convergence not encodable); later sweeps of the operators; the Krylov loops themselves (replaced by a contract)',
        'assumptions': ['floating data abstracted to HAVOC (over-approximation)', 'rank_chop replaced by "any rank in [1, len(s)]"', 'gmres_restart replaced by its contract (see C12)', 'loops of 50+ iterations cut after the stated unrolling',
                        'z3 sat/unsat verdicts; unknown counted inconclusive'],
        'tv_max': 0,
        'explanation': 'Per path the shape calculus of the real source is executed exactly; an exception or a malformed result on any path is a candidate, replayed on random operands with y bounded away from zero.',
    }
