"""C19 — copies and save/load round-trips reproduce the object exactly."""
import random
from .C01 import gen_patterns, so_ok
from .C02 import gen_tt_pattern, all_ranks_used

A = {'scalar_mode': 'A', 'logic': 'QF_NRA', 'setup': {'factor_mode': 'exact'}}

THOROUGH_SEEDS = 6


def cases(tier, seed):
    rng = random.Random(seed + 19)
    th = tier == 'thorough'
    cs = []
    structs = [([3], [1, 1], None), ([2, 3], [1, 2, 1], None), ([4, 1, 3], [1, 2, 2, 1], None), ([2], [1, 1], [3]), ([4, 3], [1, 2, 1], [2, 1]), ([1, 2, 2], [1, 2, 3, 1], [2, 1, 2])]
    if th:
        structs += [([2, 3, 2, 2], [1, 2, 3, 2, 1], None), ([2, 2, 2, 2, 2, 2], [1, 2, 2, 2, 2, 2, 1], None), ([2, 2, 1, 2], [1, 2, 2, 2, 1], [1, 2, 2, 1])]
    for N, R, M in structs:
        for dt in ('float64', 'float32', 'complex128') + (('complex64',) if th else ()):
            s = {'N': N, 'R': R, 'dtype': dt}
            if M:
                s['M'] = M
            cs.append({'scen': 'save_load_cores', 's': dict(s)})
            if dt in ('float64', 'complex128'):
                cs.append({'scen': 'save_load_cores', 's': dict(s, overwrite=True)})
                cs.append({'scen': 'save_load_cores', 's': dict(s, prefix='eye')})
            if dt == 'float64':
                cs.append({'scen': 'save_load_cores', 's': dict(s, sliced=True)})
                if M:
                    cs.append({'scen': 'save_load_cores', 's': dict(s, transposed=True)})
            for op in ('clone', 'detach', 'cpu', 'to_same', 'numpy', 'to_noargs', 'to_devonly'):
                cs.append({'scen': 'copies', 's': dict(s, op=op)})
            cs.append({'scen': 'copies', 's': dict(s, op='to_devonly', form='devobj')})
            if dt in ('float64', 'complex128'):
                for op in ('clone', 'detach', 'cpu', 'to_same', 'to_noargs'):
                    cs.append({'scen': 'copies', 's': dict(s, op=op, then_set_core=True)})
            other = {'float64': 'float32', 'float32': 'float64', 'complex128': 'complex64', 'complex64': 'complex128'}[dt]
            for form in ('dev_dtype_kw', 'dev_dtype_pos', 'devobj_dtype', 'none_dtype'):
                cs.append({'scen': 'copies', 's': dict(s, op='to_other', to=other, form=form)})
            for cj in (True, 'twice', 'sliced'):
                if dt.startswith('complex') or cj is True:
                    cs.append({'scen': 'save_load_cores', 's': dict(s, conj=cj)})
            if dt == 'float64':
                for pre in ('offset', 'strided'):
                    cs.append({'scen': 'copies', 's': dict(s, op='clone', presliced=pre)})
                    cs.append({'scen': 'save_load_cores', 's': dict(s, sliced=pre)})
                cs.append({'scen': 'save_load_cores', 's': dict(s, sliced='empty')})
            if dt in ('complex64', 'float32', 'complex128'):
                cs.append({'scen': 'copies', 's': dict(s, op='to_other', to='complex128', form='builtin')})
            if dt == 'float32':
                cs.append({'scen': 'copies', 's': dict(s, op='to_other', to='float64', form='builtin')})
            if dt == 'float64':
                cs.append({'scen': 'copies', 's': dict(s, op='to_other', to='float32')})
                cs.append({'scen': 'copies', 's': dict(s, op='to_other', to='complex128')})
            if dt == 'float32':
                cs.append({'scen': 'copies', 's': dict(s, op='to_other', to='float64')})
    # single-core operators with a row or column mode of size one (dense evaluation must keep both modes)
    for N, M in [([5], [1]), ([1], [4]), ([1], [1])]:
        for op in ('numpy', 'clone', 'cpu', 'to_same'):
            cs.append({'scen': 'copies', 's': {'N': N, 'M': M, 'R': [1, 1], 'dtype': 'float64', 'op': op}})
        cs.append({'scen': 'save_load_cores', 's': {'N': N, 'M': M, 'R': [1, 1], 'dtype': 'float64'}})
    # copies of an object whose cores are watched by autograd
    for N, R, M in [([2, 3], [1, 2, 1], None), ([2, 2, 2], [1, 2, 2, 1], None), ([2, 2], [1, 2, 1], [2, 1])]:
        for w in ([], [1]):
            sd = {'N': N, 'R': R, 'dtype': 'float64', 'op': 'clone', 'watched': w}
            if M:
                sd['M'] = M
            cs.append({'scen': 'copies', 's': sd})
    # objects whose cores are views of one storage
    for al in (2, 3):
        for op in ('clone', 'detach', 'cpu', 'to_same', 'numpy', 'to_other'):
            sd = {'N': [2] * al, 'M': [2] * al, 'R': [1] * (al + 1), 'dtype': 'float64', 'op': op, 'aliased': al}
            if op == 'to_other':
                sd['to'] = 'float32'
            cs.append({'scen': 'copies', 's': sd})
    # objects produced by TT-SVD / rounding (rank list may hold numpy integers)
    for shp in ([2, 2], [2, 3], [2, 2, 2], [3, 2, 2]) + (([2, 2, 2, 2],) if th else ()):
        for pat in gen_patterns(shp, 3, rng, 3 if not th else 6):
            cs.append({'scen': 'save_load_ttsvd', 's': {'shape': shp, 'pattern': [list(p) for p in pat]}, 'opts': A, 'no_tv': True})
    for M, N in [([2], [2]), ([2, 2], [2, 1])]:
        d = len(N)
        shp = list(M) + list(N)
        modes = [m * n for m, n in zip(M, N)]
        pats = gen_patterns(shp, 3, rng, 2, modes=modes, reindex=lambda p, M=M, N=N, d=d: [tuple(ix[i] * N[i] + ix[d + i] for i in range(d)) for ix in p])
        for pat in pats:
            cs.append({'scen': 'save_load_ttsvd', 's': {'shape': shp, 'M': M, 'N': N, 'ttm': True, 'pattern': [list(p) for p in pat]}, 'opts': A, 'no_tv': True})
    for N, R in [([2, 2], [1, 2, 1]), ([2, 2, 2], [1, 2, 2, 1])]:
        for rep in range(2):
            p = gen_tt_pattern(N, R, rng, dense_slices=True)
            cs.append({'scen': 'save_load_rounded', 's': {'N': N, 'R': R, 'patterns': [[list(q) for q in pk] for pk in p]}, 'opts': A, 'no_tv': True})
    return cs


def opts(tier):
    return {'logic': 'QF_NRA', 'qtimeout_ms': 20000, 'final_timeout_ms': 60000, 'max_paths': 400, 'case_timeout_s': 200 if tier == 'quick' else 1500}


def sig(case, label):
    s = case['s']
    sc = case['scen']
    lab = label.rstrip('0123456789')
    if sc == 'copies':
        return 'copies:%s:%s%s:%s' % (s['op'], 'ttm' if 'M' in s else 'tt', ':then_set_core' if s.get('then_set_core') else '', lab)
    return '%s:%s%s:%s' % (sc, 'ttm' if ('M' in s or s.get('ttm')) else 'tt', ':overwrite' if s.get('overwrite') else '', lab)


def meta(tier):
    from .. import loader
    tt = loader.load()
    T = tt.TT
    fns = [tt.save, tt.load, T.clone, T.detach, T.to, T.cpu, T.numpy, T.__init__]
    return {
        'functions': loader.functions_encoded(fns), 'sig': sig, 'level': 'model_checking',
        'bounds': 'TT tensors / matrices of order 1..3 (thorough 6), float32/float64/complex128 tags, built from symbolic cores, by slicing (strided views), by transposition, by TT-SVD of structurally-orthogonal '
                  'inputs and by rounding (so that the rank list takes the types the real code produces on each path: numpy integers on truncating paths, python ints otherwise); copies (clone/detach/cpu/to) also followed by set_core on the copy',
        'outside': 'the pickle byte format itself (torch.save/load are an in-memory stub that refuses, like torch >= 2.6 with weights_only=True, any object graph containing numpy scalar types); devices other than CPU',
        'assumptions': ['torch.save / torch.load stub described above (validated by replaying on real torch)', 'symtorch validated per run against real torch', 'entry equality decided by z3; metadata compared structurally'],
        'tv_max': 60,
        'explanation': 'The solver part is path feasibility (which ranks are numpy integers) and entry equality; kind/shape/rank/dtype/identity clauses are structural on each path.',
    }
