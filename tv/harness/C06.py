"""C06 — operations never change the value of their operands."""
import random
from ..scen.ops import OPS, VIEW_OPS, INPLACE


STRUCTS_TT = [{'N': [3], 'R': [1, 1]}, {'N': [2, 3], 'R': [1, 2, 1], 'R2': [1, 3, 1]}, {'N': [2, 1, 3], 'R': [1, 2, 2, 1], 'R2': [1, 1, 2, 1]},
              {'N': [1, 2], 'R': [1, 2, 1], 'R2': [1, 1, 1]}, {'N': [2, 3], 'R': [1, 1, 1], 'R2': [1, 1, 1]}, {'N': [2, 1, 2], 'R': [1, 1, 1, 1], 'R2': [1, 1, 2, 1]}]
STRUCTS_TTM = [{'N': [3], 'M': [2], 'R': [1, 1]}, {'N': [2, 3], 'M': [3, 1], 'R': [1, 2, 1], 'R2': [1, 1, 1]},
               {'N': [1, 2, 2], 'M': [1, 1, 2], 'R': [1, 2, 2, 1], 'R2': [1, 2, 1, 1]}, {'N': [2, 2], 'M': [1, 2], 'R': [1, 1, 1], 'R2': [1, 1, 1]}]


def cases(tier, seed):
    from .C03 import add_via
    cs = _cases(tier, seed)
    head = [c for c in cs if c['scen'] == 'op_preserve' and 'opts' not in c]
    rest = [c for c in cs if not (c['scen'] == 'op_preserve' and 'opts' not in c)]
    return add_via(head, 5 if tier == 'quick' else 3, ()) + rest


def _cases(tier, seed):
    th = tier == 'thorough'
    cs = []
    tts = STRUCTS_TT + ([{'N': [2, 3, 2, 2], 'R': [1, 2, 3, 2, 1], 'R2': [1, 1, 2, 1, 1]}] if th else [])
    ttms = STRUCTS_TTM + ([{'N': [2, 2, 1, 2], 'M': [1, 2, 2, 1], 'R': [1, 2, 2, 2, 1]}] if th else [])
    AMODE = {'scalar_mode': 'A', 'logic': 'QF_NRA', 'setup': {'factor_mode': 'exact'}}
    for name in ('riem_projection', 'round_default', 'norm_untracked', 'norm_sq_untracked'):
        # value-level operand preservation through exact QR/SVD models: rank-1 profiles with arbitrary entries
        for st in ([{'N': [2, 2], 'R': [1, 1, 1]}, {'N': [2, 1, 2], 'R': [1, 1, 1, 1]}, {'N': [2, 2], 'M': [2, 1], 'R': [1, 1, 1]}, {'N': [3], 'R': [1, 1]}, {'N': [2], 'M': [3], 'R': [1, 1]}] + ([{'N': [3, 2, 2], 'R': [1, 1, 1, 1]}] if th else [])):
            if len(st['N']) == 1 and not name.startswith('norm'):
                continue          # (single-core objects only for the norms: the manifold routines are specified for order >= 2)
            cs.append({'scen': 'op_preserve', 's': dict(st, op=name, R2=st['R']), 'opts': AMODE})
    for name, (kinds, f) in OPS.items():
        if name in ('riem_projection', 'round_default', 'norm_untracked', 'norm_sq_untracked'):
            continue
        first = kinds[0]
        structs = []
        if first in ('tt', 'tt@M', 'tt@N'):
            structs = tts
        elif first in ('ttm', 'ttm_sq'):
            structs = [dict(s) for s in tts]          # operand builder derives M
            if first == 'ttm':
                structs = structs + [dict(s) for s in ttms]
        elif first == 'any':
            structs = tts + ttms
        for st in structs:
            s = dict(st)
            s['op'] = name
            if first in ('ttm', 'ttm_sq') and 'M' in s and name in ('diag_ttm',):
                continue
            if name in ('to_ttm', 'getitem_ellipsis', 'apply_mask', 'cat', 'diag', 'mprod', 'mprod_list', 'dot', 'dot_axis') and 'M' in s:
                continue
            if name in ('kron', 'kron_fn', 'cat', 'dot') and 'M' in s:
                s['R2'] = s.get('R2', s['R'])
            for sk in (('float', 'tensor0') if name.endswith('_scalar') else ('float',)):
                ss = dict(s)
                ss['skind'] = sk
                cs.append({'scen': 'op_preserve', 's': ss})
    # operands of different dtypes (float64 with complex128 / float32, both orders): refused or promoted, the operands keep their dtype and value
    for name in ('matvec', 'matmat', 'add', 'sub', 'mul', 'dot', 'kron', 'bilinear'):
        if name not in OPS:
            continue
        nops = len(OPS[name][0])
        for dts in (['float64', 'complex128', 'float64'], ['complex128', 'float64', 'complex128'], ['float64', 'float32', 'float64']):
            cs.append({'scen': 'op_preserve', 's': {'N': [2, 3], 'R': [1, 2, 1], 'R2': [1, 2, 1], 'op': name, 'skind': 'float', 'dtypes': dts[:max(nops, 1)], 'may_raise': True}})
    # complex operands and complex scalars
    for st in ({'N': [2, 3], 'R': [1, 2, 1]}, {'N': [2, 2], 'M': [1, 2], 'R': [1, 2, 1]}):
        for name in ('mul_scalar', 'rmul_scalar', 'add_scalar', 'sub_scalar', 'neg', 'conj', 'clone', 'add', 'mul', 'getitem_slices', 't', 'to_same'):
            if name in ('add', 'mul', 't') and (('M' in st) != (name == 't')) and name != 'add' and name != 'mul':
                continue
            if name in ('add', 'mul') and 'M' in st:
                continue
            if name == 't' and 'M' not in st:
                continue
            for sk in (('complex', 'float') if name.endswith('_scalar') else ('float',)):
                cs.append({'scen': 'op_preserve', 's': dict(st, op=name, dtype='complex128', skind=sk, R2=st['R'])})
    # second family: two-step histories with the documented in-place operations
    for op in VIEW_OPS:
        kinds, f = OPS[op]
        for g in INPLACE:
            for target in ('operand', 'result'):
                for st in ([{'N': [2, 1, 3], 'R': [1, 2, 2, 1], 'R2': [1, 1, 2, 1]}, {'N': [1, 3], 'R': [1, 2, 1]}] +
                           ([{'N': [1, 2, 1], 'M': [1, 3, 1], 'R': [1, 2, 2, 1]}] if kinds[0] in ('any', 'ttm') else [])):
                    if kinds[0] in ('tt',) and 'M' in st:
                        continue
                    if kinds[0] == 'ttm' and 'M' not in st:
                        continue
                    s = dict(st)
                    s.update({'op': op, 'g': g, 'target': target})
                    cs.append({'scen': 'op_history', 's': s})
    # shape level: routines that need a factorization (values are havoc): operands keep core list, core tensors and metadata
    SH = {'shim': 'shape', 'scalar_mode': 'A', 'logic': None, 'setup': {'factor_mode': 'havoc'}, 'max_paths': 250 if not th else 1500}
    for name in ('round', 'round_rmax', 'reshape_merge', 'permute_rev', 'qtt_to_tens_all', 'dmrg_hadamard', 'dmrg_hadamard_guess', 'fast_matvec', 'norm_untracked'):
        for d in ((2,) if not th else (2, 3)) + ((3,) if name == 'norm_untracked' and not th else ()):
            for ttm in ((False, True) if name in ('round', 'round_rmax', 'permute_rev', 'norm_untracked') else (False,)):
                ss = {'op': name, 'd': d, 'B': 2 if 'dmrg' in name or name == 'fast_matvec' else 3}
                if ttm:
                    ss['ttm'] = True
                cs.append({'scen': 'op_preserve_shape', 's': ss, 'opts': SH})
    return cs


def opts(tier):
    return {'logic': 'QF_NRA', 'qtimeout_ms': 20000, 'final_timeout_ms': 60000 if tier == 'quick' else 240000,
            'max_paths': 64, 'case_timeout_s': 300 if tier == 'quick' else 1500}


def sig(case, label):
    s = case['s']
    base = '%s:%s:%s' % (case['scen'], s['op'], 'ttm' if ('M' in s or s.get('ttm')) else 'tt')
    if case['scen'] == 'op_history':
        base += ':%s:%s' % (s['g'], s['target'])
    lab = label.rstrip('0123456789').rstrip('_') if label.startswith(('meta_', 'value_', 'same_core_list_')) else label
    return base + ':' + lab


def meta(tier):
    from .. import loader
    tt = loader.load()
    T = tt.TT
    fns = [T.__add__, T.__sub__, T.__mul__, T.__truediv__, T.__matmul__, T.__neg__, T.__pow__, T.sum, T.__getitem__, T.t, T.conj, T.detach, T.to,
           T.clone, T.to_ttm, T.mprod, T.set_core, T.reduce_dims, tt.cat, tt.pad, tt.diag, tt.dot, tt.bilinear_form, tt.kron]
    return {
        'functions': loader.functions_encoded(fns), 'sig': sig,
        'bounds': 'every operation of the catalogue tv/scen/ops.py (%d entries) and every operand position, on TT tensors and TT matrices of order 1..3 (thorough 4), '
                  'sizes <= 3 incl. singleton modes, ranks <= 3; two-step histories r=f(x) for %d view-producing operations followed by set_core/reduce_dims on x or r; '
                  'all entries symbolic' % (len(OPS), len(VIEW_OPS)),
        'outside': 'values of operands across factorization-based routines (round, reshape, permute, QTT, DMRG products incl. initial guesses) are checked at the shape level only '
                   '(same core list, same core tensor objects, same metadata; value preservation of round/reshape/permute/to_qtt is decided in C02/C10); AMEn, division and cross routines; '
                   'user-level writes into result.cores[k] tensors',
        'assumptions': ['numpy-view storage model of symtorch mirrors torch views/in-place writes (validated against real torch per run)',
                        'z3 sat/unsat verdicts; unknown/time-out counted inconclusive'],
        'tv_max': 80,
        'explanation': 'Snapshot operand (entries as terms, list and tensor identities, metadata), run the real operation, z3 decides EXISTS values. before != after.',
    }
