"""C05 — every reachable TT object is structurally well formed (inductive step at the shape level)."""
from ..scen.ops import OPS
from ..scen.c05 import EXTRA

SKIP = {'numpy', 'repr', 'numel', 'norm_tracked', 'apply_mask'}
HEAVY = {'dmrg_hadamard', 'dmrg_hadamard_guess', 'fast_matvec'}


def cases(tier, seed):
    th = tier == 'thorough'
    cs = []
    cat = dict(OPS)
    cat.update(EXTRA)
    for name, (kinds, f) in cat.items():
        if name in SKIP:
            continue
        first = kinds[0]
        orders = [1, 2] if not th else [1, 2, 3]
        if name in HEAVY:
            orders = [2] if not th else [2, 3]
        for d in orders:
            B = (3 if d <= 2 else 2) if not th else (4 if d <= 2 else 3)
            if name in HEAVY:
                B = 2
            variants = [False, True] if first == 'any' else [False]
            for ttm in variants:
                s = {'op': name, 'd': d, 'B': B}
                if ttm:
                    s['ttm'] = True
                if name == 'set_core':
                    for k in range(d):
                        cs.append({'scen': 'wf_step', 's': dict(s, k=k)})
                    continue
                if name == 'set_core_ndim':
                    # a core of another dimensionality whose outer dims fit the ranks (e.g. a core of x.to_ttm() given to x): accepted only if the invariant survives
                    for k in sorted(set([0, d - 1])):
                        for nd in (2, 3, 4, 5):
                            cs.append({'scen': 'wf_step', 's': dict(s, k=k, ndim=nd, B=min(s['B'], 3))})
                    continue
                if name == 'set_core_free':
                    # arbitrary new core (all its dims symbolic) at every index incl. negative and out-of-range ones: accepted only if the invariant survives
                    for k in sorted(set([-d - 1, -d, -1, 0, d - 1, d])):
                        cs.append({'scen': 'wf_step', 's': dict(s, k=k, B=min(s['B'], 3))})
                    continue
                if name in ('kron', 'kron_fn', 'cat', 'dot', 'add', 'sub', 'mul', 'add_ttm', 'sub_ttm', 'mul_ttm', 'matmat') and d == 3:
                    s['B'] = 2
                c = {'scen': 'wf_step', 's': s}
                if name in HEAVY and not th:
                    c['opts'] = {'max_paths': 250}
                cs.append(c)
                if name not in HEAVY and d <= 2 and name not in ('reduce_dims', 'reduce_dims_exclude'):
                    cs.append({'scen': 'wf_step', 's': dict(s, then_set_core=True)})
    return cs


def opts(tier):
    return {'shim': 'shape', 'scalar_mode': 'A', 'logic': None, 'qtimeout_ms': 10000, 'final_timeout_ms': 30000,
            'max_paths': 1500 if tier == 'quick' else 6000, 'case_timeout_s': 200 if tier == 'quick' else 1500, 'setup': {'factor_mode': 'havoc'}}


def sig(case, label):
    s = case['s']
    return 'wf_step:%s:%s%s:%s' % (s['op'], 'ttm' if s.get('ttm') else 'tt', ':then_set_core' if s.get('then_set_core') else '', label)


def meta(tier):
    from .. import loader
    tt = loader.load(shim='shape')
    T = tt.TT
    fns = [T.__init__, T.set_core, T.reduce_dims, T.__getitem__, T.sum, T.round, T.__add__, T.__mul__, T.__matmul__, tt.reshape, tt.permute, tt.cat, tt.pad, tt.kron]
    ncat = len([n for n in list(OPS) + list(EXTRA) if n not in SKIP])
    return {
        'functions': loader.functions_encoded(fns), 'sig': sig,
        'bounds': 'inductive step over %d catalogue operations (tv/scen/ops.py + tv/scen/c05.py: constructors, algebra, rounding, slicing, reshaping, permute, QTT, cat/pad/diag/mprod/kron/dot, '
                  'set_core, reduce_dims, DMRG products with <= 2 sweeps) from a pre-state of 1..3 well-formed TT objects of order 1..2 (thorough 3) whose mode sizes and ranks are symbolic '
                  'integers in [1,3] ([1,4] thorough; [1,2] for the DMRG routines); post-condition checked on every operand and result; every non-DMRG operation also followed by set_core(0, core of other mode sizes) on its result' % ncat,
        'outside': 'AMEn / division / cross interpolation (data-dependent inner loops); orders above the bound; values',
        'assumptions': ['shapetorch models torch shape calculus (validated per run against real torch on seeded sizes)',
                        'factorizations and rank selection are havoc at this level (factors of the contractually right shape, any rank in range)',
                        'the pre-state built by the constructor from symbolic cores is exactly the invariant, so one step covers histories of any length'],
        'tv_max': 60,
        'explanation': 'z3 decides, per path of the operation, EXISTS sizes in the bound . some invariant clause fails on an operand or the result.',
    }
