"""C11 (structural clause) — DMRG / AMEn products return a well-formed TT of the right shape and raise nothing."""

THOROUGH_SEEDS = 1


def cases(tier, seed):
    th = tier == 'thorough'
    cs = []
    structs = [  # (M, N, RA, Rx)
        ([3], [2], [1, 1], [1, 1]),
        ([2, 3], [3, 2], [1, 2, 1], [1, 2, 1]),
        ([2, 1], [1, 3], [1, 1, 1], [1, 2, 1]),
        ([2, 2, 3], [3, 2, 2], [1, 2, 2, 1], [1, 1, 2, 1]),
    ]
    if th:
        structs += [([4], [4], [1, 1], [1, 1]), ([3, 3], [2, 2], [1, 3, 1], [1, 3, 1]), ([2, 2, 2], [2, 2, 2], [1, 2, 1, 1], [1, 3, 2, 1]), ([2, 1, 2, 2], [2, 2, 1, 2], [1, 2, 1, 2, 1], [1, 1, 1, 1, 1])]
    for M, N, RA, Rx in structs:
        d = len(N)
        nsw = [1, 2] if d <= 2 else [1]          # (two sweeps of an order-3 product are tens of thousands of paths per case)
        for nswp in nsw:
            for op in ('fast_matvec', 'dmrg_hadamard', 'amen_mv', 'amen_mm'):
                if op == 'amen_mm' and d >= 3 and not th:
                    continue            # (thorough tier: minutes per case)
                if op in ('amen_mm', 'amen_mv') and d >= 4:
                    continue
                if op == 'amen_mm' and d == 2 and nswp == 2 and not th:
                    continue
                s = {'op': op, 'M': M, 'N': N, 'RA': RA, 'Rx': Rx, 'kw': {'nswp': nswp}}
                if op == 'dmrg_hadamard':
                    s.pop('M')
                if op == 'amen_mm':
                    s['K'] = [((m + n) % 2) + 1 for m, n in zip(M, N)]
                cs.append({'scen': 'product_structure', 's': s})
                if nswp == 1:
                    g = [1] + [3] * (d - 1) + [1]
                    if d <= 2 or th or op in ('fast_matvec', 'dmrg_hadamard'):
                        cs.append({'scen': 'product_structure', 's': dict(s, guess=g)})
                    if d == 2 or (d >= 2 and th):
                        cs.append({'scen': 'product_structure', 's': dict(s, guess=[1] * (d + 1))})
        if d <= 2:
            # (kickrank = 0 is not among the configurations the property quantifies over: amen_mv builds a rank-0 residual and refuses it)
            variants = [('dmrg_hadamard', {'nswp': 1, 'kickrank': 1}), ('dmrg_hadamard', {'nswp': 1, 'rmax': 1}), ('amen_mv', {'nswp': 1, 'kickrank': 1}), ('amen_mv', {'nswp': 1, 'kick2': 1}),
                        ('amen_mm', {'nswp': 1, 'rmax': 1}), ('amen_mv', {'nswp': 1, 'rmax': 2})]
            if th:
                variants += [('fast_matvec', {'nswp': 3}), ('dmrg_hadamard', {'nswp': 3})]
            for op, kw in variants:
                s = {'op': op, 'M': M, 'N': N, 'RA': RA, 'Rx': Rx, 'kw': kw}
                if op == 'dmrg_hadamard':
                    s.pop('M')
                if op == 'amen_mm':
                    s['K'] = [((m + n) % 2) + 1 for m, n in zip(M, N)]
                cs.append({'scen': 'product_structure', 's': s})
    # an operand doubles as the initial guess
    cs.append({'scen': 'product_structure', 's': {'op': 'dmrg_hadamard', 'N': [3, 2], 'RA': [1, 2, 1], 'Rx': [1, 2, 1], 'kw': {'nswp': 1}, 'guess_is': 'operand'}})
    cs.append({'scen': 'product_structure', 's': {'op': 'dmrg_hadamard', 'N': [2, 2, 3], 'RA': [1, 2, 2, 1], 'Rx': [1, 1, 2, 1], 'kw': {'nswp': 1}, 'guess_is': 'operand'}})
    return cs


def opts(tier):
    return {'logic': 'QF_LIA', 'qtimeout_ms': 10000, 'final_timeout_ms': 30000, 'max_paths': 6000 if tier == 'quick' else 40000,
            'case_timeout_s': 300 if tier == 'quick' else 1200, 'scalar_mode': 'Z',
            'setup': {'factor_mode': 'havoc', 'fresh': 'havoc', 'select_mode': 'ite'}}


def sig(case, label):
    s = case['s']
    return 'product_structure:%s:d%d:%s:%s' % (s['op'], len(s['N']), 'guess' if s.get('guess') else 'random', label)


def meta(tier):
    from .. import loader
    tt = loader.load()
    import torchtt._dmrg as dm
    import torchtt._amen as am
    fns = [dm.dmrg_matvec_python, dm.dmrg_hadamard_python, am.amen_mv, am.amen_mm, am._amen_mm_python, tt.TT.fast_matvec]
    return {
        'overapprox': True, 'functions': loader.functions_encoded(fns), 'sig': sig,
        'bounds': 'CLAUSE DECIDED: only "fast_matvec, dmrg_hadamard, amen_mv and amen_mm return a TT object of the correct kind and shape (well-formed rank chain) and raise nothing, incl. order-1 and order-2 operands, '
                  'with a random or a user-supplied initial guess". orders 1..3 (thorough 4), mode sizes 1..3 (4), operand ranks 1..3, guess ranks 1 and 3, nswp 1..2, kickrank/kick2/rmax variants; every floating value is havoc, '
                  'so all outcomes of QR/SVD/solve, rank truncation, residual tests and convergence tests are covered',
        'outside': 'the accuracy clause of C11 (a convergence statement about a randomised floating-point sweep: not encodable); more than 2 sweeps; orders > 4; the C++ backend',
        'assumptions': ['floating data abstracted to HAVOC (over-approximation: infeasible combinations of comparison outcomes are explored too)',
                        'rank_chop replaced by "any rank in [1, len(s)]" (its kernel is decided under C01)', 'z3 sat/unsat verdicts; unknown counted inconclusive'],
        'tv_max': 0,
        'explanation': 'Per path (sequence of nondeterministic comparison outcomes and rank choices) the shape calculus of the real source is executed exactly; an exception or a malformed result on any path is a candidate, '
                       'replayed by running the real routine on random operands of the same structure.',
    }
