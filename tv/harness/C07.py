"""C07 — norm, inner product, sums and bilinear forms equal their dense values."""
import random
import itertools
from .C03 import _rank_profiles, _pick


AOPTS = {'scalar_mode': 'A', 'logic': None, 'setup': {'factor_mode': 'exact'}, 'case_timeout_s': 120}

THOROUGH_SEEDS = 5


def cases(tier, seed):
    from .C03 import add_via
    return add_via(_cases(tier, seed), 6 if tier == 'quick' else 4, ('tt_bilinear',))


def _cases(tier, seed):
    rng = random.Random(seed + 7)
    th = tier == 'thorough'
    cs = []
    structs = [([3], [1, 1]), ([1], [1, 1]), ([2, 3], [1, 2, 1]), ([2, 3], [1, 3, 1]), ([2, 1, 3], [1, 2, 2, 1]), ([1, 1, 1], [1, 2, 1, 1]),
               ([2, 2, 2], [1, 2, 3, 1])]
    if th:
        structs += [([2, 3, 2, 2], [1, 2, 3, 2, 1]), ([2, 1, 2, 1, 2], [1, 2, 2, 2, 2, 1]), ([4, 3], [1, 3, 1]), ([3, 2, 3], [1, 3, 2, 1]), ([2, 2, 2, 2], [1, 2, 2, 2, 1])]
    # ---- norm, tracked by autograd (Gram chain)
    for N, R in structs:
        for sq in (True, False):
            cs.append({'scen': 'tt_norm', 's': {'N': N, 'R': R, 'dtype': 'float64', 'tracked': True, 'squared': sq}})
    for N, R in structs[:4]:
        M = [n % 2 + 1 for n in N]
        for sq in (True, False):
            cs.append({'scen': 'tt_norm', 's': {'N': N, 'M': M, 'R': R, 'dtype': 'float64', 'tracked': True, 'squared': sq}})
    cs.append({'scen': 'tt_norm', 's': {'N': [2, 2], 'R': [1, 2, 1], 'dtype': 'complex128', 'tracked': True, 'squared': True}})
    cs.append({'scen': 'tt_norm', 's': {'N': [2], 'R': [1, 1], 'dtype': 'complex128', 'tracked': True, 'squared': False}})
    cs.append({'scen': 'tt_norm', 's': {'N': [2], 'M': [2], 'R': [1, 1], 'dtype': 'complex128', 'tracked': True, 'squared': True}})
    cs.append({'scen': 'tt_norm', 's': {'N': [2, 1], 'M': [1, 2], 'R': [1, 2, 1], 'dtype': 'complex128', 'tracked': True, 'squared': True}})
    cs.append({'scen': 'tt_norm', 's': {'N': [1, 2], 'M': [2, 1], 'R': [1, 1, 1], 'dtype': 'complex128', 'tracked': True, 'squared': False}})
    # ---- norm, untracked (QR sweep; exact factorization models, see tv/factor.py)
    for N, R in [([3], [1, 1]), ([1], [1, 1]), ([2, 3], [1, 2, 1]), ([2, 3], [1, 1, 1]), ([2, 2, 2], [1, 1, 2, 1]), ([2, 2, 2], [1, 2, 1, 1]),
                 ([3, 2], [1, 2, 1]), ([1, 3], [1, 1, 1]), ([2, 1, 2], [1, 1, 1, 1])] + ([([2, 2, 2, 2], [1, 1, 2, 1, 1]), ([2, 3, 2], [1, 2, 1, 1])] if th else []):
        for sq in (True, False):
            cs.append({'scen': 'tt_norm', 's': {'N': N, 'R': R, 'dtype': 'float64', 'squared': sq, 'variant': 'untracked'}, 'opts': AOPTS})
    for N, M, R in [([2], [3], [1, 1]), ([2, 1], [1, 2], [1, 2, 1]), ([1, 2], [2, 1], [1, 2, 1])]:
        for sq in (True, False):
            cs.append({'scen': 'tt_norm', 's': {'N': N, 'M': M, 'R': R, 'dtype': 'float64', 'squared': sq, 'variant': 'untracked'}, 'opts': AOPTS})
    # ---- exactly zero rank blocks (z + x, x + z with z = zeros): rank-deficient unfoldings with zero columns in the QR sweep
    for N, R in [([2, 3], [1, 1, 1]), ([2, 2, 2], [1, 1, 1, 1])] + ([([3, 2], [1, 2, 1])] if th else []):
        for pz in ('front', 'back'):
            if pz == 'back' and max(R) > 1:
                continue          # (a zero block behind a rank-2 bond: rank-deficient QR input outside the exact model)
            for sq in (True, False):
                if max(R) > 1 and not sq and not th:
                    continue
                cs.append({'scen': 'tt_norm', 's': {'N': N, 'R': R, 'dtype': 'float64', 'squared': sq, 'variant': 'untracked', 'plus_zero': pz}, 'opts': AOPTS})
    cs.append({'scen': 'tt_norm', 's': {'N': [2, 1], 'M': [1, 2], 'R': [1, 1, 1], 'dtype': 'float64', 'squared': True, 'variant': 'untracked', 'plus_zero': 'front'}, 'opts': AOPTS})
    # ---- histories on one object: norm, set_core, norm
    for N, R, k in [([3], [1, 1], 0), ([2, 3], [1, 2, 1], 1), ([2, 3], [1, 1, 1], 1), ([2, 2, 2], [1, 1, 2, 1], 1)]:
        for sq, fsq in ((True, True), (False, False), (True, False)):
            if R == [1, 2, 1] and (sq, fsq) != (True, True) and not th:
                continue
            cs.append({'scen': 'tt_norm', 's': {'N': N, 'R': R, 'dtype': 'float64', 'squared': sq, 'first_squared': fsq, 'variant': 'untracked',
                                                'history': 'norm_set_core_norm', 'k': k}, 'opts': AOPTS})
    cs.append({'scen': 'tt_norm', 's': {'N': [2], 'M': [2], 'R': [1, 1], 'dtype': 'float64', 'squared': False, 'variant': 'untracked',
                                        'history': 'norm_set_core_norm', 'k': 0}, 'opts': AOPTS})
    cs.append({'scen': 'tt_norm', 's': {'N': [2, 3], 'R': [1, 2, 1], 'dtype': 'float64', 'squared': True, 'first_squared': True, 'tracked': True,
                                        'history': 'norm_set_core_norm', 'k': 1}})
    # ---- dot: full
    for N, R in structs:
        d = len(N)
        R2 = _pick([p for p in _rank_profiles(d, [1, 2, 3] if d <= 3 else [1, 2]) if p != R] or [R], 1, rng)[0]
        cs.append({'scen': 'tt_dot', 's': {'Na': N, 'Ra': R, 'Nb': N, 'Rb': R2, 'dtype': 'float64'}})
    cs.append({'scen': 'tt_dot', 's': {'Na': [2, 3], 'Ra': [1, 2, 1], 'Nb': [2, 3], 'Rb': [1, 3, 1], 'dtype': 'complex128'}})
    cs.append({'scen': 'tt_dot', 's': {'Na': [3], 'Ra': [1, 1], 'Nb': [3], 'Rb': [1, 1], 'dtype': 'complex128'}})
    # ---- dot along selected modes: first, last, adjacent, scattered, all
    part = [([2, 3, 4], [1, 2, 2, 1]), ([3, 2], [1, 2, 1]), ([2, 1, 3], [1, 2, 3, 1]), ([3], [1, 1])]
    if th:
        part += [([2, 3, 2, 3], [1, 2, 2, 2, 1]), ([2, 1, 2, 3, 2], [1, 2, 1, 2, 2, 1])]
    for Na, Ra in part:
        d = len(Na)
        for k in range(1, d + 1):
            for axis in itertools.combinations(range(d), k):
                Nb = [Na[i] for i in axis]
                Rb = _pick(_rank_profiles(len(Nb), [1, 2, 3] if len(Nb) <= 2 else [1, 2]), 1, rng)[0]
                cs.append({'scen': 'tt_dot', 's': {'Na': Na, 'Ra': Ra, 'Nb': Nb, 'Rb': Rb, 'axis': list(axis), 'dtype': 'float64'}})
    # rank-one first operand against a higher-rank second operand (and the reverse)
    for Na, Nb, axis in [([2, 3, 4], [2, 3, 4], [0, 1, 2]), ([2, 3, 4], [3, 4], [1, 2]), ([2, 3, 4], [2, 4], [0, 2]), ([3, 2], [3, 2], [0, 1])]:
        ra1, rb = [1] * (len(Na) + 1), [1] + [2] * (len(Nb) - 1) + [1]
        ra2, rb1 = [1] + [2] * (len(Na) - 1) + [1], [1] * (len(Nb) + 1)
        cs.append({'scen': 'tt_dot', 's': {'Na': Na, 'Ra': ra1, 'Nb': Nb, 'Rb': rb, 'axis': axis, 'dtype': 'float64'}})
        cs.append({'scen': 'tt_dot', 's': {'Na': Na, 'Ra': ra2, 'Nb': Nb, 'Rb': rb1, 'axis': axis, 'dtype': 'float64'}})
    cs.append({'scen': 'tt_dot', 's': {'Na': [2, 3], 'Ra': [1, 1, 1], 'Nb': [2, 3], 'Rb': [1, 2, 1], 'axis': [0, 1], 'dtype': 'complex128'}})
    cs.append({'scen': 'tt_dot', 's': {'Na': [2, 3, 2], 'Ra': [1, 2, 2, 1], 'Nb': [3], 'Rb': [1, 1], 'axis': [1], 'dtype': 'complex128'}})
    cs.append({'scen': 'tt_dot', 's': {'Na': [2, 3, 2], 'Ra': [1, 2, 2, 1], 'Nb': [2, 2], 'Rb': [1, 2, 1], 'axis': [0, 2], 'dtype': 'complex128'}})
    # ---- sum
    for N, R in structs:
        d = len(N)
        cs.append({'scen': 'tt_sum', 's': {'N': N, 'R': R, 'dtype': 'float64'}})
        subsets = []
        for k in range(1, d + 1):
            subsets += list(itertools.combinations(range(d), k))
        for idx in (subsets if d <= 3 or th else _pick(subsets, 6, rng)):
            cs.append({'scen': 'tt_sum', 's': {'N': N, 'R': R, 'index': list(idx), 'dtype': 'float64'}})
        cs.append({'scen': 'tt_sum', 's': {'N': N, 'R': R, 'index': [d - 1], 'as_int': True, 'dtype': 'float64'}})
        cs.append({'scen': 'tt_sum', 's': {'N': N, 'R': R, 'index': [0], 'as_int': True, 'dtype': 'float64'}})
        cs.append({'scen': 'tt_sum', 's': {'N': N, 'R': R, 'index': [], 'dtype': 'float64'}})
    for N, M, R in [([2], [3], [1, 1]), ([2, 3], [3, 1], [1, 2, 1]), ([1, 2, 2], [2, 1, 2], [1, 2, 2, 1])]:
        d = len(N)
        cs.append({'scen': 'tt_sum', 's': {'N': N, 'M': M, 'R': R, 'dtype': 'float64'}})
        for k in range(1, d + 1):
            for idx in itertools.combinations(range(d), k):
                cs.append({'scen': 'tt_sum', 's': {'N': N, 'M': M, 'R': R, 'index': list(idx), 'dtype': 'float64'}})
    cs.append({'scen': 'tt_sum', 's': {'N': [2, 3, 2], 'R': [1, 2, 2, 1], 'index': [-1], 'dtype': 'float64'}})
    cs.append({'scen': 'tt_sum', 's': {'N': [2, 3, 2], 'R': [1, 2, 2, 1], 'index': [0, -2], 'dtype': 'float64'}})
    cs.append({'scen': 'tt_sum', 's': {'N': [2, 3], 'R': [1, 2, 1], 'dtype': 'complex128'}})
    cs.append({'scen': 'tt_sum', 's': {'N': [2, 3], 'R': [1, 2, 1], 'index': [0], 'dtype': 'complex128'}})
    # ---- bilinear form
    for M, N in [([2], [3]), ([2, 3], [3, 1]), ([1, 2], [2, 2]), ([2, 1, 2], [1, 2, 2])]:
        d = len(N)
        ch = [1, 2, 3] if d <= 2 else [1, 2]
        for rep in range(2 if not th else 5):
            Rx, RA, Ry = (_pick(_rank_profiles(d, ch), 1, rng)[0] for _ in range(3))
            cs.append({'scen': 'tt_bilinear', 's': {'M': M, 'N': N, 'Rx': Rx, 'RA': RA, 'Ry': Ry, 'dtype': 'float64'}})
    cs.append({'scen': 'tt_bilinear', 's': {'M': [2, 1], 'N': [1, 2], 'Rx': [1, 2, 1], 'RA': [1, 2, 1], 'Ry': [1, 1, 1], 'dtype': 'complex128'}})
    return cs


def opts(tier):
    return {'logic': 'QF_NRA', 'qtimeout_ms': 20000, 'final_timeout_ms': 60000 if tier == 'quick' else 240000,
            'max_paths': 64, 'case_timeout_s': 300 if tier == 'quick' else 1500}


def sig(case, label):
    s = case['s']
    sc = case['scen']
    if sc == 'tt_sum':
        kind = 'ttm' if 'M' in s else 'tt'
        how = 'all' if s.get('index') is None else 'index'
        single = ''
        if s.get('index') is not None:
            rem = [n for i, n in enumerate(s['N']) if i not in s['index']]
            single = ':remaining_singleton' if any(n == 1 for n in rem) and (kind == 'tt' or any(s['M'][i] == 1 and s['N'][i] == 1 for i in range(len(s['N'])) if i not in s['index'])) else ''
        return 'tt_sum:%s:%s%s:%s' % (kind, how, single, label)
    if sc == 'tt_norm':
        return 'tt_norm:%s:%s:order%s%s:%s' % ('ttm' if 'M' in s else 'tt', 'tracked' if s.get('tracked') else 'untracked',
                                                 '1' if len(s['N']) == 1 else '>1', (':' + s['history'] if s.get('history') else '') + (':plus_zero' if s.get('plus_zero') else ''), label)
    from ..run import default_sig
    return default_sig(case, label)


def meta(tier):
    from .. import loader
    tt = loader.load()
    T = tt.TT
    import torchtt._aux_ops as aux
    fns = [T.norm, T.sum, T.reduce_dims, tt.dot, tt.bilinear_form, aux.bilinear_form_aux]
    return {
        'functions': loader.functions_encoded(fns), 'sig': sig,
        'bounds': 'order 1..3 (thorough 5); sizes <= 4; ranks <= 3; every subset of summed / contracted modes; tracked norm: arbitrary cores; '
                  'untracked norm (QR sweep): arbitrary cores where every QR input has <= 2 columns or one row/column (exact symbolic QR), see DESIGN 2.5; '
                  'complex dtype instances decide the conjugation clauses; histories norm / set_core / norm on one object',
        'outside': 'IEEE rounding; untracked norm with rank >= 3 bonds; sizes > 4',
        'assumptions': ['symtorch models torch (validated per run against real torch on seeded inputs)',
                        'torch.linalg.qr replaced by an exact symbolic Gram-Schmidt model (sign freedom: positive diagonal of R)',
                        'z3 sat/unsat verdicts; unknown/time-out counted inconclusive', 'real arithmetic instead of IEEE floats'],
        'tv_max': 60,
        'explanation': 'z3 decides EXISTS core values. library reduction != dense reduction, per structure.',
    }
