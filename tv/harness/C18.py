"""C18 — incompatible operands raise an error instead of returning a wrong tensor (shape level)."""
import itertools

SOPTS = {'shim': 'shape', 'scalar_mode': 'A', 'logic': None}


def cases(tier, seed):
    th = tier == 'thorough'
    B = 3 if not th else 4
    cs = []
    orders = [1, 2] if not th else [1, 2, 3]
    # binary elementwise operators: every kind pair and order pair
    for op in ('add', 'sub', 'mul'):
        for k1, k2 in itertools.product(('tt', 'ttm'), repeat=2):
            for d1, d2 in itertools.product(orders + ([3] if not th and k1 == 'tt' and k2 == 'tt' else []), repeat=2):
                if k1 == 'ttm' and k2 == 'ttm' and d1 + d2 > (4 if not th else 5):
                    continue
                cs.append({'scen': 'c18_binop', 's': {'op': op, 'k1': k1, 'k2': k2, 'd1': d1, 'd2': d2, 'B': B}})
    # matmul
    for k1, k2 in itertools.product(('tt', 'ttm'), repeat=2):
        for d1, d2 in itertools.product(orders, repeat=2):
            cs.append({'scen': 'c18_matmul', 's': {'k1': k1, 'k2': k2, 'd1': d1, 'd2': d2, 'B': B}})
    for k1 in ('tt', 'ttm'):
        for d1 in orders:
            for d2, nb in ((1, 0), (2, 0), (1, 1), (2, 1), (3, 0)):
                cs.append({'scen': 'c18_matmul', 's': {'k1': k1, 'k2': 'dense', 'd1': d1, 'd2': d2, 'batch': nb, 'B': B}})
    # operators of order 3 against dense operands of lower / equal / higher order (trailing-dimension matching must not broadcast a short shape)
    for d2, nb in ((1, 0), (2, 0), (3, 0), (1, 1), (2, 1)):
        cs.append({'scen': 'c18_matmul', 's': {'k1': 'ttm', 'k2': 'dense', 'd1': 3, 'd2': d2, 'batch': nb, 'B': 2}})
    # dot
    for k1, k2 in itertools.product(('tt', 'ttm'), repeat=2):
        for d1, d2 in itertools.product(orders, repeat=2):
            cs.append({'scen': 'c18_dot', 's': {'k1': k1, 'k2': k2, 'd1': d1, 'd2': d2, 'B': B}})
    for d1, d2, axis in [(2, 1, [0]), (2, 1, [1]), (3, 2, [0, 2]), (3, 1, [1]), (2, 2, [0, 1]), (2, 1, [2]), (2, 2, [0]), (3, 2, [0]), (2, 1, [0, 1]), (1, 2, [0])]:
        cs.append({'scen': 'c18_dot', 's': {'k1': 'tt', 'k2': 'tt', 'd1': d1, 'd2': d2, 'axis': axis, 'B': B}})
    # bilinear form
    for d in orders:
        cs.append({'scen': 'c18_bilinear', 's': {'d': d, 'B': B}})
        cs.append({'scen': 'c18_bilinear', 's': {'d': d, 'kx': 'ttm', 'B': B}})
        cs.append({'scen': 'c18_bilinear', 's': {'d': d, 'kA': 'tt', 'B': B}})
        cs.append({'scen': 'c18_bilinear', 's': {'d': d, 'ky': 'ttm', 'B': B}})
    # one object in several operand positions
    for d in (1, 2):
        for k in ('tt', 'ttm'):
            cs.append({'scen': 'c18_dot', 's': {'k1': k, 'k2': k, 'd1': d, 'd2': d, 'B': B, 'alias': True}})
            cs.append({'scen': 'c18_dot', 's': {'k1': k, 'k2': k, 'd1': d, 'd2': d, 'B': B, 'alias': True, 'axis': list(range(d))}})
            cs.append({'scen': 'c18_matmul', 's': {'k1': k, 'k2': k, 'd1': d, 'd2': d, 'B': B, 'alias': True}})
        cs.append({'scen': 'c18_bilinear', 's': {'d': d, 'B': B, 'alias': 'xy'}})
        cs.append({'scen': 'c18_bilinear', 's': {'d': d, 'B': B, 'alias': 'all', 'kx': 'ttm', 'ky': 'ttm'}})
    cs.append({'scen': 'c18_bilinear', 's': {'d': 2, 'dx': 1, 'B': B}})
    cs.append({'scen': 'c18_bilinear', 's': {'d': 2, 'dy': 1, 'B': B}})
    cs.append({'scen': 'c18_bilinear', 's': {'d': 2, 'dx': 1, 'dy': 3, 'B': B}})      # (orders differ but the flat size lists can coincide)
    cs.append({'scen': 'c18_bilinear', 's': {'d': 2, 'dx': 3, 'dy': 1, 'B': B}})
    # cat
    for d in [1, 2, 3]:
        for dim in range(-1, d + 1):
            cs.append({'scen': 'c18_cat', 's': {'d': d, 'dim': dim, 'B': B}})
    cs.append({'scen': 'c18_cat', 's': {'d': 2, 'dim': 0, 'ds': [2, 1, 2], 'B': B}})
    cs.append({'scen': 'c18_cat', 's': {'d': 2, 'dim': 0, 'ds': [2, 3, 2], 'B': B}})
    cs.append({'scen': 'c18_cat', 's': {'d': 2, 'dim': 1, 'kinds': ['tt', 'ttm', 'tt'], 'B': B}})
    cs.append({'scen': 'c18_cat', 's': {'d': 2, 'dim': 1, 'kinds': ['ttm', 'ttm', 'tt'], 'B': B}})
    for d in (2, 3):
        for dim in range(-d, d):
            cs.append({'scen': 'c18_cat', 's': {'d': d, 'dim': dim, 'n': 3, 'B': B}})      # three operands: every later operand is checked against the first
    # arguments that must fit the operand
    for d in orders:
        for kind in ('tt', 'ttm'):
            for idx in ([d], [d + 5], [-d - 1], d, 'x', [0, d], (0,)):
                cs.append({'scen': 'c18_unary_args', 's': {'what': 'sum_index', 'd': d, 'kind': kind, 'index': idx if not isinstance(idx, tuple) else list(idx), 'B': B,
                                                           'class_check': True}})
            for k in (d - 1, d, d + 1, 2 * d, 2 * d + 1):
                if k >= 0:
                    cs.append({'scen': 'c18_unary_args', 's': {'what': 'getitem_arity', 'd': d, 'kind': kind, 'k': k, 'B': B, 'class_check': False}})
            cs.append({'scen': 'c18_unary_args', 's': {'what': 'getitem_int', 'd': d, 'kind': kind, 'B': B, 'class_check': False}})
            for k in ((d - 1, d, d + 1) if kind == 'tt' else (2 * d - 2, 2 * d, 2 * d + 2)):
                if k >= 0:
                    cs.append({'scen': 'c18_unary_args', 's': {'what': 'getitem_arity_none', 'd': d, 'kind': kind, 'k': k, 'B': B, 'class_check': False}})
                    if kind == 'tt':
                        cs.append({'scen': 'c18_unary_args', 's': {'what': 'getitem_arity_none', 'd': d, 'kind': kind, 'k': k, 'front': False, 'B': B, 'class_check': False}})
            for k in (d, d + 1):
                cs.append({'scen': 'c18_unary_args', 's': {'what': 'pad_count', 'd': d, 'kind': kind, 'k': k, 'B': B}})
            for mode in (0, d - 1, d, -1):
                cs.append({'scen': 'c18_unary_args', 's': {'what': 'mprod', 'd': d, 'kind': kind, 'mode': mode, 'B': B, 'class_check': -d <= mode < d}})
            for modes in ([0, 0], [0, d - 1], [d - 1, 0], [0, -d], [-1, d - 1], [0, d]):
                cs.append({'scen': 'c18_unary_args', 's': {'what': 'mprod_list', 'd': d, 'kind': kind, 'modes': modes, 'B': B, 'class_check': all(-d <= m < d for m in modes)}})
            for k in (0, d - 1, d, -1):
                cs.append({'scen': 'c18_unary_args', 's': {'what': 'set_core', 'd': d, 'kind': kind, 'k': k, 'B': B}})
            cs.append({'scen': 'c18_unary_args', 's': {'what': 'set_core', 'd': d, 'kind': kind, 'k': 0, 'wrong_ndim': True, 'B': B, 'class_check': False}})
            cs.append({'scen': 'c18_unary_args', 's': {'what': 't', 'd': d, 'kind': kind, 'B': B}})
            cs.append({'scen': 'c18_unary_args', 's': {'what': 'to_ttm', 'd': d, 'kind': kind, 'B': B, 'class_check': False}})
            cs.append({'scen': 'c18_unary_args', 's': {'what': 'diag', 'd': d, 'kind': kind, 'B': B, 'class_check': False}})
    for d in (2, 3):
        for dims in ([0, 0] + [1] * (d - 2), list(range(1, d + 1)), list(range(d - 1)), list(range(d + 1)), [-1] + list(range(1, d)), list(reversed(range(d)))):
            cs.append({'scen': 'c18_unary_args', 's': {'what': 'permute', 'd': d, 'dims': dims, 'B': 2, 'class_check': all(isinstance(v, int) and v >= 0 for v in dims)},
                       'opts': {'setup': {}}})
    for d, dt in [(1, 1), (1, 2), (2, 1), (2, 2), (2, 3)]:
        cs.append({'scen': 'c18_unary_args', 's': {'what': 'reshape', 'd': d, 'dt': dt, 'B': 2}})
    for d in (1, 2):
        cs.append({'scen': 'c18_unary_args', 's': {'what': 'to_qtt', 'd': d, 'B': 4 if d == 1 else 3, 'class_check': True}})
    cs.append({'scen': 'c18_unary_args', 's': {'what': 'to_qtt', 'd': 1, 'B': 9, 'mode_size': 3, 'class_check': True}})
    cs.append({'scen': 'c18_unary_args', 's': {'what': 'to_qtt', 'd': 2, 'B': 6, 'mode_size': 3, 'class_check': True}})
    cs.append({'scen': 'c18_unary_args', 's': {'what': 'to_qtt', 'd': 1, 'B': 8, 'mode_size': 4, 'class_check': True}})
    for d, do in [(2, 1), (2, 2), (3, 2), (3, 1), (2, 3)]:
        cs.append({'scen': 'c18_unary_args', 's': {'what': 'qtt_to_tens', 'd': d, 'do': do, 'B': 2}})
    for d in (1, 2, 3):
        for form in ('two', 'neg_all', 'one'):
            cs.append({'scen': 'c18_unary_args', 's': {'what': 'reshape_negative', 'd': d, 'B': 3, 'form': form}})
        if d <= 2:
            for form in ('pairs_neg', 'two', 'rows_neg', 'one', 'mixed'):
                cs.append({'scen': 'c18_unary_args', 's': {'what': 'reshape_negative', 'd': d, 'B': 2 if d == 2 else 3, 'form': form, 'kind': 'ttm'}})
        for k in (-1, 0, 1, 2):
            if d + k >= 1:
                cs.append({'scen': 'c18_unary_args', 's': {'what': 'apply_mask_cols', 'd': d, 'B': 3, 'k': k, 'class_check': False}})
    # wrong argument types
    table = {
        'add': ('str', 'none', 'list', 'dict', 'dense', 'vec', 'col', 'row', 'slab', 'slab4'), 'radd': ('str', 'none', 'list'), 'sub': ('str', 'none', 'list', 'dense', 'vec', 'col', 'row', 'slab', 'slab4'), 'mul': ('str', 'none', 'list', 'dict', 'dense', 'vec', 'col', 'row', 'slab', 'slab4'),
        'matmul': ('str', 'none', 'list'), 'truediv': ('str', 'none', 'list', 'dense', 'vec', 'col', 'row', 'slab', 'slab4'), 'kron': ('str', 'list', 'dense', 'none'), 'pow': ('str', 'list', 'dense'),
        'dot': ('str', 'none', 'dense'), 'dot_first': ('str', 'none', 'dense'), 'bilinear': ('str', 'none', 'dense'), 'diag': ('str', 'none', 'dense', 'list'),
        'permute': ('str', 'none', 'dense'), 'save': ('str', 'none', 'dense', 'list'), 'fast_matvec': ('str', 'none', 'dense'), 'zeros': ('str', 'none'),
        'ones': ('str', 'none'), 'sum': ('str', 'dict'), 'getitem': ('str', 'none', 'list', 'dict'), 'mprod': ('str', 'none', 'list'), 'ctor': ('str', 'dict'),
        'qtt_to_tens': ('str', 'none', 'dense'), 'set_core': ('str', 'none', 'list'),
    }
    for what, args in table.items():
        for a in args:
            for kind in (('tt', 'ttm') if what in ('add', 'sub', 'mul', 'matmul', 'truediv') else ('tt',)):
                cs.append({'scen': 'c18_types', 's': {'what': what, 'arg': a, 'kind': kind, 'd': 2, 'B': 2, 'class_check': what not in ('getitem', 'set_core')}})
    # AMEn entry points: guards on kinds / squareness / sizes
    for what in ('amen_solve', 'amen_mv'):
        for d in (1, 2):
            cs.append({'scen': 'c18_solver_guards', 's': {'what': what, 'd': d, 'B': B}})
            cs.append({'scen': 'c18_solver_guards', 's': {'what': what, 'd': d, 'kA': 'tt', 'B': B}})
            cs.append({'scen': 'c18_solver_guards', 's': {'what': what, 'd': d, 'kb': 'ttm', 'B': B}})
        cs.append({'scen': 'c18_solver_guards', 's': {'what': what, 'd': 2, 'db': 1, 'B': B}})
    # constructor from cores
    for d in (1, 2, 3):
        for nds in itertools.product((2, 3, 4, 5), repeat=d):
            if d == 3 and not (len(set(nds)) <= 2 and set(nds) <= {3, 4}):
                continue
            cs.append({'scen': 'c18_ctor', 's': {'d': d, 'ndims': list(nds), 'B': 2 if d == 3 else B}})
    # constructor from a dense array and a requested shape: element counts
    for nsrc, d in ((1, 1), (1, 2), (2, 1), (2, 2), (3, 2), (2, 3)):
        for ttm in (False, True):
            if ttm and d == 3:
                continue
            cs.append({'scen': 'c18_ctor_dense', 's': {'nsrc': nsrc, 'd': d, 'ttm': ttm, 'B': 2 if (ttm and d > 1) or d == 3 else 3, 'Bsrc': 4}})
    cs.append({'scen': 'c18_ctor_dense', 's': {'nsrc': 2, 'd': 2, 'ttm': False, 'B': 3, 'Bsrc': 4, 'numpy': True}})
    return cs


def opts(tier):
    o = dict(SOPTS)
    o.update({'qtimeout_ms': 10000, 'final_timeout_ms': 30000, 'max_paths': 2000 if tier == 'quick' else 8000,
              'case_timeout_s': 240 if tier == 'quick' else 1500, 'setup': {'factor_mode': 'havoc'}})
    return o


def sig(case, label):
    s = case['s']
    sc = case['scen']
    parts = [sc]
    for k in ('what', 'op', 'k1', 'k2', 'kind', 'arg', 'kx', 'kA', 'ky', 'alias', 'form', 'mode_size'):
        if k in s:
            parts.append('%s=%s' % (k, s[k]))
    if sc in ('c18_binop', 'c18_matmul', 'c18_dot'):
        parts.append('d=%s,%s' % (s['d1'], s['d2']))
    if sc == 'c18_unary_args' and s['what'] == 'sum_index':
        idx = s['index']
        parts.append('index=' + ('oob' if isinstance(idx, list) and all(isinstance(i, int) for i in idx) else type(idx).__name__))
    parts.append(label)
    return ':'.join(parts)


def meta(tier):
    from .. import loader
    tt = loader.load(shim='shape')
    T = tt.TT
    fns = [T.__init__, T.__add__, T.__sub__, T.__mul__, T.__matmul__, T.__truediv__, T.__pow__, T.sum, T.__getitem__, T.set_core, T.mprod, T.t, T.to_qtt, T.qtt_to_tens,
           T.fast_matvec, tt.dot, tt.bilinear_form, tt.cat, tt.pad, tt.permute, tt.reshape, tt.kron, tt.diag, tt.save, tt.zeros, tt.ones]
    return {
        'functions': loader.functions_encoded(fns), 'sig': sig,
        'bounds': 'shape level: operands of order 1..2 (3 for tensor pairs; thorough 3) whose mode sizes and ranks are symbolic integers in [1,3] (thorough [1,4]); every kind pair (tensor/operator/dense); '
                  'finite argument classes (str, None, list, dict, dense tensor); index/axis/permutation/arity arguments as listed in the harness; TT(dense, shape) with source dims in [1,4]; one symbolic run per structure covers every size in the bound',
        'outside': 'sizes above the bound; values (no data at this level); AMEn/cross entry points; the exact exception class is only compared for documented cases',
        'assumptions': ['shapetorch models the shape calculus and the shape errors of torch (validated per run against real torch on seeded sizes)',
                        'rank selection is havoc (any rank in range) at this level; factorizations return factors of the contractually right shape',
                        'the compatibility predicates in tv/scen/c18.py are written from the documentation', 'z3 sat/unsat verdicts (QF_NIA); unknown counted inconclusive'],
        'tv_max': 80,
        'explanation': 'For every path on which the entry point returns, z3 decides EXISTS sizes within the bound . NOT compatible; a model is replayed with random data of those sizes on real torch.',
    }
