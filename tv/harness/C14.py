"""C14 (index clause) — dmrg_cross hands the user's function only in-range integer index matrices."""

THOROUGH_SEEDS = 1


def cases(tier, seed):
    th = tier == 'thorough'
    cs = []
    # the maxvol kernel: every small shape, tall (LU + swap loop) and wide/square (all rows)
    for m in range(1, 6 if not th else 8):
        for n in range(1, 4 if not th else 5):
            cs.append({'scen': 'maxvol_contract', 's': {'m': m, 'n': n, 'unroll': 2 if not th else 3}})
    # dmrg_cross with the kernel replaced by its contract
    # (mode sizes start at 2: the property quantifies over mode sizes 2..20)
    shapes2 = [[2, 2], [2, 3], [3, 2], [3, 3], [4, 2], [2, 4]]
    shapes3 = [[2, 2, 2], [3, 2, 2], [2, 3, 2], [2, 2, 3]]
    if th:
        shapes2 += [[2, 5], [5, 2], [4, 4], [3, 5]]
        shapes3 += [[3, 3, 2], [2, 3, 3], [4, 2, 2]]
    for N in shapes2:
        for kick in (0, 1, 2):
            cs.append({'scen': 'cross_index', 's': {'N': N, 'kick': kick, 'nswp': 1}})
        cs.append({'scen': 'cross_index', 's': {'N': N, 'kick': 2, 'nswp': 2}})
        for R in ([1, 1, 1], [1, 2, 1], [1, 3, 1], [1, 5, 1]):
            cs.append({'scen': 'cross_index', 's': {'N': N, 'kick': 1, 'nswp': 1, 'start_ranks': R}})
    for N in shapes3:
        for kick in ((0, 2) if not th else (0, 1, 2)):
            cs.append({'scen': 'cross_index', 's': {'N': N, 'kick': kick, 'nswp': 1}})
        cs.append({'scen': 'cross_index', 's': {'N': N, 'kick': 1, 'nswp': 1, 'start_ranks': [1, 1, 2, 1]}})
        if th:
            cs.append({'scen': 'cross_index', 's': {'N': N, 'kick': 1, 'nswp': 2}})
            cs.append({'scen': 'cross_index', 's': {'N': N, 'kick': 1, 'nswp': 1, 'start_ranks': [1, 3, 1, 1]}})
            cs.append({'scen': 'cross_index', 's': {'N': N, 'kick': 2, 'nswp': 1, 'start_ranks': [1, 2, 5, 1]}})
    # function_interpolate: structure only (shape of the result, form of the arguments handed to the user function, no exception)
    # (orders from 2: the property quantifies over orders 2..5)
    for N, Rx in [([2, 3], [1, 2, 1]), ([3, 2], [1, 1, 1]), ([2, 2, 2], [1, 2, 2, 1])] + ([([3, 3], [1, 3, 1]), ([2, 3, 2], [1, 2, 1, 1])] if th else []):
        d = len(N)
        for nargs in (0, d):              # univariate, or (as documented) as many argument tensors as modes
            for kick in (0, 1, 2):
                if kick == 1 and d >= 3 and not th:
                    continue
                cs.append({'scen': 'interp_structure', 's': {'N': N, 'Rx': Rx, 'nargs': nargs, 'kick': kick, 'nswp': 1}})
            if d == 2:
                cs.append({'scen': 'interp_structure', 's': {'N': N, 'Rx': Rx, 'nargs': nargs, 'kick': 2, 'nswp': 2}})
                for R in ([1, 1, 1], [1, 3, 1]):
                    cs.append({'scen': 'interp_structure', 's': {'N': N, 'Rx': Rx, 'nargs': nargs, 'kick': 1, 'nswp': 1, 'start_ranks': R}})
    # order 4: the first order at which a left index set with two columns is used
    for N in ([2, 3, 3, 2],) + (([3, 2, 2, 3], [2, 2, 2, 2], [2, 3, 4, 2], [4, 3, 2, 2]) if th else ()):      # neighbouring sizes distinct at both ends
        # one exploration split into independent cases by the outcomes of the first two rank truncations
        pm = 6
        for a in range(1, pm + 1):
            for b in range(1, pm + 1):
                cs.append({'scen': 'cross_index', 's': {'N': list(N), 'kick': 1, 'nswp': 1, 'rank_prefix': [a, b], 'rank_prefix_max': pm}})
    if th:
        for a in range(1, 7):
            for b in range(1, 7):
                cs.append({'scen': 'cross_index', 's': {'N': [2, 3, 2, 3, 2], 'kick': 0, 'nswp': 1, 'rank_prefix': [a, b], 'rank_prefix_max': 6}})
    return cs


def opts(tier):
    return {'logic': 'QF_LIA', 'qtimeout_ms': 10000, 'final_timeout_ms': 30000, 'max_paths': 3000 if tier == 'quick' else 20000,
            'case_timeout_s': 300 if tier == 'quick' else 1800, 'scalar_mode': 'Z',
            'setup': {'factor_mode': 'havoc', 'fresh': 'havoc', 'select_mode': 'ite'}}


def sig(case, label):
    s = case['s']
    if case['scen'] == 'maxvol_contract':
        return 'maxvol:%dx%d:%s' % (s['m'], s['n'], label)
    import re
    if case['scen'] == 'interp_structure':
        return 'interp_structure:N=%s:%s:%s' % ('x'.join(str(n) for n in s['N']), 'multi' if s.get('nargs') else 'uni', label)
    return 'cross_index:N=%s:%s:%s' % ('x'.join(str(n) for n in s['N']), 'start' if s.get('start_ranks') else 'random', re.sub(r'call\d+_col\d+', 'call_col', label))


def meta(tier):
    from .. import loader
    tt = loader.load()
    ip = tt.interpolate
    import torchtt._decomposition as dec
    fns = [ip.dmrg_cross, ip.function_interpolate, ip._maxvol, ip._max_matrix, dec.rank_chop, dec.lr_orthogonal]
    return {
        'overapprox': True, 'functions': loader.functions_encoded(fns), 'sig': sig,
        'bounds': 'CLAUSE DECIDED: only "dmrg_cross calls the user function with an M x d int64 index matrix whose column k lies in [0, N[k])" (plus shape/rank well-formedness of the result). '
                  'orders 2..4 (thorough 5), mode sizes 2..4 (thorough 5), kick 0..2, nswp 1..2, random start or a start tensor with ranks 1..5 (incl. ranks larger than the modes allow); every floating value is havoc (any value, '
                  'every comparison nondeterministic), so all outcomes of QR/SVD/solve/maxvol pivoting, rank_chop and the convergence test are covered; _maxvol: matrices m x n with m < 6 (8), n < 4 (5), '
                  'swap loop unrolled 2 (3) times',
        'outside': 'the accuracy clause of C14 (convergence of a randomised floating-point iteration: not encodable), the data clause of function_interpolate (values drawn from the argument tensors; only its structure - result shape, form of the arguments handed to the user function, no exception - is decided), '
                   'orders > 4, sizes > 5, more than 2 sweeps; _maxvol beyond the unrolled swap iterations (each iteration starts from a state no more general than the previous one: idx any in-range vector, Mat havoc)',
        'assumptions': ['floating data abstracted to HAVOC (over-approximation: infeasible combinations of comparison outcomes are explored too)',
                        'inside dmrg_cross, _maxvol is replaced by its contract (min(m,n) positions in [0,m)), which the scenario maxvol_contract decides on the real _maxvol body', 'inside dmrg_cross, rank_chop is replaced by "any rank in [1, len(s)]" (its kernel is decided under C01)',
                        'inside _maxvol, _LU is replaced by its contract (a permutation vector of 0..m-1): torch.linalg.lu_factor / lu_unpack are the LAPACK boundary',
                        'z3 sat/unsat verdicts; unknown counted inconclusive'],
        'tv_max': 0,
        'explanation': 'Per path (sequence of nondeterministic comparison outcomes and rank choices) z3 decides EXISTS pivot positions / top-k positions . some entry of an index matrix handed to the user function '
                       'is outside [0, N[k]) or an index computation raises. Counterexamples are replayed by running the real dmrg_cross on a smooth function for several seeds and watching the indices.',
    }
