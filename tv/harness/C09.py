"""C09 — cat, pad, diag, mprod, to_ttm, conj, clone are exact."""
import random
import itertools
from .C03 import _rank_profiles, _pick

THOROUGH_SEEDS = 6


def cases(tier, seed):
    from .C03 import add_via
    return add_via(_cases(tier, seed), 6 if tier == 'quick' else 4, ('ttm_pad',))


def _cases(tier, seed):
    rng = random.Random(seed + 9)
    th = tier == 'thorough'
    cs = []
    # ---- cat: 2..3 operands, every axis, distinct sizes on the concatenated axis, distinct rank profiles
    base = [[3], [2, 3], [2, 1, 3], [1, 2, 2]]
    if th:
        base += [[2, 3, 2, 2], [1, 1, 1], [4, 2], [3, 3, 3], [2, 1, 1, 2]]
    for N in base:
        d = len(N)
        ch = [1, 2, 3] if d <= 2 else [1, 2]
        for dim in range(d):
            for nops in (2, 3):
                sizes = [1, 2, 3][:nops] if N[dim] != 1 else [2, 1, 3][:nops]
                Ns = []
                for i in range(nops):
                    Ni = list(N)
                    Ni[dim] = sizes[i]
                    Ns.append(Ni)
                for rep in range(1 if not th else 4):
                    Rs = [_pick(_rank_profiles(d, ch), 1, rng)[0] for _ in range(nops)]
                    cs.append({'scen': 'tt_cat', 's': {'Ns': Ns, 'Rs': Rs, 'dim': dim, 'dtype': 'float64'}})
    cs.append({'scen': 'tt_cat', 's': {'Ns': [[2, 3], [1, 3]], 'Rs': [[1, 2, 1], [1, 3, 1]], 'dim': 0, 'dtype': 'complex128'}})
    cs.append({'scen': 'tt_cat', 's': {'Ns': [[2, 3], [2, 1]], 'Rs': [[1, 2, 1], [1, 3, 1]], 'dim': 1, 'dtype': 'float32'}})
    cs.append({'scen': 'tt_cat', 's': {'Ns': [[2, 3], [2, 1]], 'Rs': [[1, 2, 1], [1, 3, 1]], 'dim': 1, 'dtype': 'float64', 'aslist': True}})
    cs.append({'scen': 'tt_cat', 's': {'Ns': [[2, 3]], 'Rs': [[1, 2, 1]], 'dim': 1, 'dtype': 'float64'}})
    cs.append({'scen': 'tt_cat', 's': {'Ns': [[2, 3], [2, 1]], 'Rs': [[1, 2, 1], [1, 3, 1]], 'dim': -1, 'dtype': 'float64'}})
    cs.append({'scen': 'tt_cat', 's': {'Ns': [[2, 3, 2], [1, 3, 2]], 'Rs': [[1, 2, 2, 1], [1, 1, 2, 1]], 'dim': -3, 'dtype': 'float64'}})
    # ---- pad (tensors): widths from {0,1,2} on every subset of trailing modes, symbolic fill value
    for N, R in [([3], [1, 1]), ([2, 3], [1, 1, 1]), ([2, 3], [1, 2, 1]), ([2, 1, 2], [1, 2, 2, 1]), ([1, 2], [1, 3, 1])]:
        d = len(N)
        for k in range(0, d + 1):
            widths = list(itertools.product([0, 1, 2], repeat=2))
            combos = [tuple(rng.choice(widths) for _ in range(k)) for _ in range(3 if not th else 8)]
            combos.append(tuple((1, 2) for _ in range(k)))
            combos.append(tuple((0, 0) for _ in range(k)))
            for pad in {c for c in combos}:
                for value in ('sym', 0.0):
                    cs.append({'scen': 'tt_pad', 's': {'N': N, 'R': R, 'pad': [list(p) for p in pad], 'value': value, 'dtype': 'float64'}})
        cs.append({'scen': 'tt_pad', 's': {'N': N, 'R': R, 'pad': [[1, 1]] * d, 'value': 0.0, 'default_value': True, 'dtype': 'float64'}})
    cs.append({'scen': 'tt_pad', 's': {'N': [2, 3], 'R': [1, 2, 1], 'pad': [[1, 0], [0, 2]], 'value': 0.0, 'dtype': 'complex128'}})
    cs.append({'scen': 'tt_pad', 's': {'N': [2, 3], 'R': [1, 2, 1], 'pad': [[1, 0], [0, 2]], 'value': 0.0, 'dtype': 'float32'}})
    # ---- pad (operators)
    for M, N, R in [([2], [3], [1, 1]), ([2, 1], [1, 2], [1, 2, 1]), ([2, 2], [2, 2], [1, 1, 1]), ([1, 2, 1], [2, 1, 2], [1, 2, 1, 1]), ([2, 1, 1], [1, 1, 2], [1, 1, 2, 1])] + ([([1, 2, 1], [2, 1, 2], [1, 2, 2, 1])] if th else []):
        d = len(N)
        for k in range(0, d + 1):
            for pad in {tuple((1, 2) for _ in range(k)), tuple((0, 1) for _ in range(k)), tuple((2, 0) for _ in range(k)), tuple((0, 0) for _ in range(k)),
                        tuple(((1, 1) if j % 2 == 0 else (0, 2)) for j in range(k))}:
                for value in ('sym', 0.0):
                    cs.append({'scen': 'ttm_pad', 's': {'M': M, 'N': N, 'R': R, 'pad': [list(p) for p in pad], 'value': value, 'dtype': 'float64'}})
    # fill values that single precision cannot represent, on double-precision operators (helper tensors must take the operator's dtype)
    for M, N, R in [([2], [3], [1, 1]), ([2, 1], [1, 2], [1, 2, 1])]:
        for value in (0.1, 1000000.1):
            cs.append({'scen': 'ttm_pad', 's': {'M': M, 'N': N, 'R': R, 'pad': [[1, 2]] * len(N), 'value': value, 'dtype': 'float64'}})
    cs.append({'scen': 'ttm_pad', 's': {'M': [2], 'N': [2], 'R': [1, 1], 'pad': [[1, 1]], 'value': 0.1, 'dtype': 'complex128'}})
    # ---- diag
    for N, R in [([3], [1, 1]), ([2, 3], [1, 2, 1]), ([2, 1, 2], [1, 2, 3, 1]), ([1, 1], [1, 2, 1])] + ([([2, 2, 2, 2], [1, 2, 2, 2, 1])] if th else []):
        for dr in ('embed', 'extract'):
            for dt in ('float64', 'complex128') if len(N) <= 2 else ('float64',):
                cs.append({'scen': 'tt_diag', 's': {'dir': dr, 'N': N, 'R': R, 'dtype': dt}})
    cs.append({'scen': 'tt_diag', 's': {'dir': 'embed', 'N': [2, 3], 'R': [1, 2, 1], 'dtype': 'float32'}})
    # diagonal of operators with rectangular modes (tall, wide, mixed; also the shape of x.to_ttm())
    for M, N, R in [([3], [2], [1, 1]), ([2], [3], [1, 1]), ([3, 2], [2, 2], [1, 2, 1]), ([2, 3, 2], [3, 1, 2], [1, 2, 2, 1]), ([3, 2], [1, 1], [1, 2, 1])]:
        cs.append({'scen': 'tt_diag', 's': {'dir': 'extract', 'M': M, 'N': N, 'R': R, 'dtype': 'float64'}})
    cs.append({'scen': 'tt_diag', 's': {'dir': 'extract', 'M': [3, 1], 'N': [2, 2], 'R': [1, 2, 1], 'dtype': 'complex128'}})
    # fill value given as a 0-d tensor (checked unchanged afterwards); order-1 objects and zero widths, where tensor padding is exact
    for N, R, pad in [([3], [1, 1], [[1, 2]]), ([4], [1, 1], [[0, 1]]), ([2, 3], [1, 2, 1], [[0, 0], [0, 0]])]:
        cs.append({'scen': 'tt_pad', 's': {'N': N, 'R': R, 'pad': pad, 'value': 'tensor0', 'dtype': 'float64'}})
    # paddings passed as a list (checked unchanged afterwards), widths not a palindrome
    for N, R, pad in [([2, 3], [1, 2, 1], [[1, 0], [0, 2]]), ([2, 1, 2], [1, 2, 2, 1], [[2, 0], [0, 1], [1, 1]]), ([3], [1, 1], [[0, 2]])]:
        cs.append({'scen': 'tt_pad', 's': {'N': N, 'R': R, 'pad': pad, 'value': 0.0, 'dtype': 'float64', 'pad_as_list': True}})
    cs.append({'scen': 'ttm_pad', 's': {'M': [2, 1], 'N': [1, 2], 'R': [1, 2, 1], 'pad': [[1, 0], [0, 2]], 'value': 'sym', 'dtype': 'float64', 'pad_as_list': True}})
    # ---- mprod
    for N, R in [([3], [1, 1]), ([2, 3], [1, 2, 1]), ([2, 3, 2], [1, 2, 3, 1]), ([1, 2, 3], [1, 1, 2, 1])] + ([([2, 2, 3, 2], [1, 2, 2, 2, 1])] if th else []):
        d = len(N)
        for m in range(d):
            cs.append({'scen': 'tt_mprod', 's': {'N': N, 'R': R, 'modes': [m], 'L': [N[m] % 3 + 1], 'single': True, 'dtype': 'float64'}})
        for k in range(1, d + 1):
            for modes in itertools.combinations(range(d), k):
                cs.append({'scen': 'tt_mprod', 's': {'N': N, 'R': R, 'modes': list(modes), 'L': [(N[m] + i) % 3 + 1 for i, m in enumerate(modes)], 'dtype': 'float64'}})
        if d >= 2:
            cs.append({'scen': 'tt_mprod', 's': {'N': N, 'R': R, 'modes': [d - 1, 0], 'L': [2, 3], 'dtype': 'float64'}})
            cs.append({'scen': 'tt_mprod', 's': {'N': N, 'R': R, 'modes': [0, -1], 'L': [N[0], N[-1]], 'dtype': 'float64'}})
            cs.append({'scen': 'tt_mprod', 's': {'N': N, 'R': R, 'modes': [-d, -1], 'L': [3, 2], 'dtype': 'float64'}})
        cs.append({'scen': 'tt_mprod', 's': {'N': N, 'R': R, 'modes': [-1], 'L': [2], 'dtype': 'float64'}})
        cs.append({'scen': 'tt_mprod', 's': {'N': N, 'R': R, 'modes': [-1], 'L': [N[-1]], 'single': True, 'dtype': 'float64'}})
        cs.append({'scen': 'tt_mprod', 's': {'N': N, 'R': R, 'modes': [0, 0], 'L': [2, 3], 'dtype': 'float64'}})
        cs.append({'scen': 'tt_mprod', 's': {'N': N, 'R': R, 'modes': [d - 1, -1], 'L': [N[-1], N[-1]], 'dtype': 'float64'}})
    cs.append({'scen': 'tt_mprod', 's': {'N': [2, 3], 'R': [1, 2, 1], 'modes': [1], 'L': [2], 'single': True, 'dtype': 'complex128'}})
    # ---- to_ttm, conj, clone
    for N, R in [([3], [1, 1]), ([2, 3], [1, 2, 1]), ([2, 1, 3], [1, 2, 3, 1])]:
        cs.append({'scen': 'tt_to_ttm', 's': {'N': N, 'R': R, 'dtype': 'float64'}})
        for op in ('conj', 'clone'):
            for dt in ('float64', 'complex128'):
                cs.append({'scen': 'tt_conj_clone', 's': {'op': op, 'N': N, 'R': R, 'dtype': dt}})
                cs.append({'scen': 'tt_conj_clone', 's': {'op': op, 'N': N, 'R': R, 'M': [n % 2 + 1 for n in N], 'dtype': dt}})
    # the same object more than once among the operands of cat
    for Ns, Rs, dim, rep in [([[2, 3], [2, 3]], [[1, 2, 1], [1, 1, 1]], 0, [0, 0]), ([[2, 3], [2, 3]], [[1, 2, 1], [1, 1, 1]], 1, [0, 1, 0]), ([[3], [3]], [[1, 1], [1, 1]], 0, [1, 0, 0]),
                             ([[2, 2, 2], [2, 2, 2]], [[1, 2, 2, 1], [1, 1, 2, 1]], -1, [0, 0])]:
        cs.append({'scen': 'tt_cat', 's': {'Ns': Ns, 'Rs': Rs, 'dim': dim, 'dtype': 'float64', 'repeat': rep}})
    return cs


def opts(tier):
    return {'logic': 'QF_NRA', 'qtimeout_ms': 20000, 'final_timeout_ms': 60000 if tier == 'quick' else 240000,
            'max_paths': 64, 'case_timeout_s': 300 if tier == 'quick' else 1500}


def sig(case, label):
    s = case['s']
    sc = case['scen']
    if sc == 'tt_pad':
        d = len(s['N'])
        k = len(s['pad'])
        nz = 'value=0' if s['value'] == 0.0 else 'value=sym'
        rk = 'rank1' if max(s['R']) == 1 else 'rank>1'
        npad = sum(1 for p in s['pad'] if tuple(p) != (0, 0))
        return 'tt_pad:%s:%s:padded_modes=%s:%s' % (nz, rk, 'none' if npad == 0 else ('one' if npad == 1 else 'many'), label)
    if sc == 'ttm_pad':
        d = len(s['N'])
        k = len(s['pad'])
        part = 'all_modes' if k == d else ('no_modes' if k == 0 else 'subset')
        return 'ttm_pad:%s:%s' % (part, label)
    from ..run import default_sig
    return default_sig(case, label)


def meta(tier):
    from .. import loader
    tt = loader.load()
    T = tt.TT
    fns = [tt.cat, tt.pad, tt.diag, T.mprod, T.to_ttm, T.conj, T.clone]
    return {
        'functions': loader.functions_encoded(fns), 'sig': sig,
        'bounds': 'order 1..3 (thorough 4); sizes <= 3; ranks <= 3; cat: 1..3 operands on every axis with distinct sizes and rank profiles; '
                  'pad: widths from {0,1,2} on every number of trailing modes, fill value symbolic (covers 0 and non-zero) and literal 0; '
                  'mprod: every mode subset with symbolic factor matrices; all entries symbolic',
        'outside': 'IEEE rounding; sizes > 3, ranks > 3, order > 4; negative padding',
        'assumptions': ['symtorch models torch (validated per run against real torch on seeded inputs)',
                        'z3 sat/unsat verdicts; unknown/time-out counted inconclusive', 'real arithmetic instead of IEEE floats'],
        'tv_max': 60,
        'explanation': 'z3 decides EXISTS core/fill/factor values. contracted result != dense operation, per structure.',
    }
