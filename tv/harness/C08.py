"""C08 — indexing and apply_mask agree with dense indexing (value level; shapes also at S-level in C08s)."""
import random
import itertools
from .C03 import _rank_profiles, _pick


def _slices(n):
    out = {'S': ['slice', None, None, None], 'G': ['slice', None, None, 2], 'L': ['slice', 0, 1, None]}
    if n >= 2:
        out['P'] = ['slice', 1, None, None]
        out['Q'] = ['slice', None, -1, None]
        out['L2'] = ['slice', n - 1, n, None]
        out['NEG'] = ['slice', -2, None, None]
    if n >= 3:
        out['H'] = ['slice', 1, n - 1, None]
        out['G2'] = ['slice', 1, None, 2]
    return out

THOROUGH_SEEDS = 2


def cases(tier, seed):
    from .C03 import add_via
    cs = _cases(tier, seed)
    head = [c for c in cs if c['scen'] == 'tt_getitem']
    rest = [c for c in cs if c['scen'] != 'tt_getitem']
    return add_via(head, 8 if tier == 'quick' else 5, ('tt_getitem',)) + rest


def _cases(tier, seed):
    rng = random.Random(seed + 8)
    th = tier == 'thorough'
    cs = []
    shapes = [[3], [1], [2, 3], [1, 3], [3, 1], [2, 3, 4], [2, 1, 3], [1, 1, 2]]
    rank1 = {'[2, 3, 4]': [1, 1, 3, 1], '[2, 1, 3]': [1, 1, 1, 1], '[2, 3]': [1, 1, 1]}
    if th:
        shapes += [[3, 2, 1], [2, 3, 2, 2], [1, 2, 1, 3], [2, 2, 1, 2, 2]]
    for N in shapes:
        d = len(N)
        R = _pick(_rank_profiles(d, [1, 2, 3] if d <= 2 else [1, 2]), 1, rng)[0]
        if max(R) == 1 and d > 1:
            R = [1] + [2] * (d - 1) + [1]
        kinds = []
        for n in N:
            sl = _slices(n)
            kinds.append([['symint', n]] + [sl[k] for k in sorted(sl)])
        combos = list(itertools.product(*kinds))
        if len(combos) > (60 if not th else 400):
            combos = rng.sample(combos, 60 if not th else 400)
        for c in combos:
            cs.append({'scen': 'tt_getitem', 's': {'N': N, 'R': R, 'dtype': 'float64', 'index': [list(k) for k in c]}})
        if str(N) in rank1:
            # rank-1 bonds next to integer-indexed modes
            for c in combos[::3]:
                cs.append({'scen': 'tt_getitem', 's': {'N': N, 'R': rank1[str(N)], 'dtype': 'float64', 'index': [list(k) for k in c]}})
        # None insertions
        base = [['slice', None, None, None] if i % 2 == 0 else ['symint', N[i]] for i in range(d)]
        for pos in range(d + 1):
            idx = list(base)
            idx.insert(pos, 'none')
            cs.append({'scen': 'tt_getitem', 's': {'N': N, 'R': R, 'dtype': 'float64', 'index': idx}})
        idx = ['none'] + [['slice', None, None, None]] * d + ['none']
        cs.append({'scen': 'tt_getitem', 's': {'N': N, 'R': R, 'dtype': 'float64', 'index': idx}})
        # Ellipsis: leading / trailing with 0..d explicit items
        for k in range(0, d + 1):
            tail = [['symint', N[d - k + j]] if j % 2 == 0 else ['slice', None, None, None] for j in range(k)]
            cs.append({'scen': 'tt_getitem', 's': {'N': N, 'R': R, 'dtype': 'float64', 'index': ['ell'] + tail}})
            head = [['slice', 0, 1, None] if j % 2 == 0 else ['symint', N[j]] for j in range(k)]
            cs.append({'scen': 'tt_getitem', 's': {'N': N, 'R': R, 'dtype': 'float64', 'index': head + ['ell']}})
        cs.append({'scen': 'tt_getitem', 's': {'N': N, 'R': R, 'dtype': 'float64', 'index': ['ell', 'none']}})
        if d == 1:
            for it in (['symint', N[0]], ['slice', None, None, None], ['slice', 0, 1, None], 'ell'):
                cs.append({'scen': 'tt_getitem', 's': {'N': N, 'R': R, 'dtype': 'float64', 'index': [it], 'bare': True}})
        else:
            cs.append({'scen': 'tt_getitem', 's': {'N': N, 'R': R, 'dtype': 'float64', 'index': ['ell'], 'bare': True}})
    # rank profiles that fall / rise next to integer-indexed modes (the fold direction of the removed singleton cores depends on the ranks)
    for N, R in [([2, 3, 4], [1, 3, 2, 1]), ([2, 3, 2], [1, 2, 3, 1]), ([2, 2, 3, 2], [1, 2, 1, 2, 1]), ([3, 2, 2, 2], [1, 3, 2, 1, 1])]:
        d = len(N)
        for mask in itertools.product((0, 1), repeat=d):
            if not any(mask) or (d == 4 and sum(mask) == 1 and not th):
                continue
            idx = [['symint', N[i]] if mask[i] else ['slice', None, None, None] for i in range(d)]
            cs.append({'scen': 'tt_getitem', 's': {'N': N, 'R': R, 'dtype': 'float64', 'index': idx}})
    # None entries combined with a leading / trailing Ellipsis, singleton modes and integers under or next to the Ellipsis
    SL = ['slice', None, None, None]
    for N, R in [([3, 1, 2, 1], [1, 2, 2, 1, 1]), ([2, 3, 2], [1, 2, 2, 1]), ([1, 2], [1, 1, 1])]:
        d = len(N)
        forms = [['none', 'ell'], ['none', 'none', 'ell'], ['none', ['symint', N[0]], 'ell'], [['symint', N[0]], 'none', 'ell'], ['none', SL, 'ell'], ['none', SL, ['symint', N[1]], 'ell'],
                 ['ell', 'none'], ['ell', 'none', 'none'], ['ell', ['symint', N[-1]], 'none'], ['ell', 'none', ['symint', N[-1]]], ['ell', 'none', SL]]       # (an Ellipsis in the middle is not among the forms the property covers)
        if d >= 3:
            forms += [['none', ['symint', N[0]], 'none', 'ell'], ['none', ['symint', N[0]], ['symint', N[1]], 'ell'], ['ell', ['symint', N[-2]], 'none', SL]]
        for f in forms:
            if sum(1 for k in f if k not in ('none', 'ell')) > d:
                continue
            cs.append({'scen': 'tt_getitem', 's': {'N': N, 'R': R, 'dtype': 'float64', 'index': [k if isinstance(k, str) else list(k) for k in f]}})
    # concrete negative / positive ints
    cs.append({'scen': 'tt_getitem', 's': {'N': [2, 3], 'R': [1, 2, 1], 'dtype': 'float64', 'index': [['int', -1], ['int', 2]]}})
    cs.append({'scen': 'tt_getitem', 's': {'N': [2, 3], 'R': [1, 2, 1], 'dtype': 'complex128', 'index': [['symint', 2], ['slice', 1, None, None]]}})
    # ---- TT matrices: int pairs / slice pairs (rows first, then columns)
    for M, N in [([2], [3]), ([2, 3], [3, 2]), ([1, 2], [2, 1]), ([2, 1, 2], [1, 2, 2])]:
        d = len(N)
        R = [1] + [2] * (d - 1) + [1]
        pair_kinds = []
        for m, n in zip(M, N):
            sm, sn = _slices(m), _slices(n)
            opts_ = [(['symint', m], ['symint', n]), (sm['S'], sn['S']), (sm['L'], sn['L']), (sm['G'], sn['S'])]
            if 'P' in sm and 'P' in sn:
                opts_.append((sm['P'], sn['Q']))
            pair_kinds.append(opts_)
        combos = list(itertools.product(*pair_kinds))
        if len(combos) > (25 if not th else 120):
            combos = rng.sample(combos, 25 if not th else 120)
        for c in combos:
            idx = [list(p[0]) for p in c] + [list(p[1]) for p in c]
            cs.append({'scen': 'tt_getitem', 's': {'N': N, 'M': M, 'R': R, 'dtype': 'float64', 'index': idx}})
    # ---- apply_mask
    for N, R in [([3], [1, 1]), ([2, 3], [1, 2, 1]), ([2, 1, 3], [1, 2, 2, 1]), ([2, 2, 2], [1, 2, 3, 1])] + ([([2, 3, 2, 2], [1, 2, 2, 2, 1])] if th else []):
        for rows in (1, 2, 3):
            cs.append({'scen': 'tt_apply_mask', 's': {'N': N, 'R': R, 'rows': rows, 'dtype': 'float64'}})
    cs.append({'scen': 'tt_apply_mask', 's': {'N': [2, 3], 'R': [1, 2, 1], 'rows': 2, 'dtype': 'complex128'}})
    for N, R in [([3], [1, 1]), ([2, 3], [1, 2, 1]), ([2, 2, 3], [1, 1, 2, 1])]:
        cs.append({'scen': 'tt_apply_mask', 's': {'N': N, 'R': R, 'rows': 2, 'dtype': 'float64', 'negative': True}})
    # ---- shape level: symbolic mode sizes, symbolic integer indices and symbolic slice bounds
    SH = {'shim': 'shape', 'scalar_mode': 'A', 'logic': None, 'max_paths': 3000 if not th else 12000, 'case_timeout_s': 200 if not th else 900}
    Bs = 3 if not th else 4
    S_ALL = ['slice', None, None, None]
    S_SS = ['slice', 'sym', 'sym', None]
    S_S1 = ['slice', 'sym', None, None]
    S_2 = ['slice', None, 'sym', None]
    S_STEP = ['slice', None, None, 'sym']
    S_FULL = ['slice', 'sym', 'sym', 'sym']
    for d in ((1, 2) if not th else (1, 2, 3)):
        kinds = ['int', S_ALL, S_SS, S_S1, S_2, S_STEP] + ([S_FULL] if d == 1 or th else [])
        combos = list(itertools.product(kinds, repeat=d))
        if len(combos) > 24 and not th:
            combos = rng.sample(combos, 24)
        if th and len(combos) > 80:
            combos = rng.sample(combos, 80)
        for c in combos:
            if sum(1 for k in c if k != 'int' and 'sym' in k) > 2 and not th:
                continue
            if th and sum(sum(1 for v in k if v == 'sym') for k in c if k != 'int') > 4:
                continue          # (more than four symbolic slice parameters: hours per case)
            cs.append({'scen': 'getitem_shape', 's': {'d': d, 'B': Bs, 'index': [k if isinstance(k, str) else list(k) for k in c]}, 'opts': SH})
        for pos in range(d + 1):
            idx = [S_S1 if i % 2 == 0 else 'int' for i in range(d)]
            idx.insert(pos, 'none')
            cs.append({'scen': 'getitem_shape', 's': {'d': d, 'B': Bs, 'index': [k if isinstance(k, str) else list(k) for k in idx]}, 'opts': SH})
        for k in range(d + 1):
            cs.append({'scen': 'getitem_shape', 's': {'d': d, 'B': Bs, 'index': ['ell'] + ['int' if j % 2 == 0 else list(S_2) for j in range(k)]}, 'opts': SH})
            cs.append({'scen': 'getitem_shape', 's': {'d': d, 'B': Bs, 'index': [list(S_S1) if j % 2 == 0 else 'int' for j in range(k)] + ['ell']}, 'opts': SH})
        if d == 1:
            for it in ('int', S_SS, S_STEP, 'ell'):
                cs.append({'scen': 'getitem_shape', 's': {'d': 1, 'B': Bs, 'index': [it if isinstance(it, str) else list(it)], 'bare': True}, 'opts': SH})
    for d in (2, 3):
        for idx in (['none', 'ell'], ['none', 'none', 'ell'], ['none', 'int', 'ell'], ['int', 'none', 'ell'], ['none', S_S1, 'ell'], ['ell', 'none'], ['ell', 'int', 'none'], ['ell', 'none', 'int'], ['ell', 'none', S_2],
                    ['none', 'int', 'none', 'ell'], ['none', 'int', 'int', 'ell']):
            if sum(1 for k in idx if k not in ('none', 'ell')) > d:
                continue
            cs.append({'scen': 'getitem_shape', 's': {'d': d, 'B': Bs, 'index': [k if isinstance(k, str) else list(k) for k in idx]}, 'opts': SH})
    # fewer indices than modes (with and without None): an error, or else exactly the dense shape
    for d in (2, 3):
        for idx in (['int'], [S_ALL], ['none', 'int'], ['int', 'none'], ['none', S_ALL], ['none', 'int', 'int'][:d], ['int', 'none', S_2][:d], ['none', 'none', 'int']):
            if sum(1 for k in idx if k != 'none') >= d:
                continue
            cs.append({'scen': 'getitem_shape', 's': {'d': d, 'B': Bs, 'too_few': True, 'index': [k if isinstance(k, str) else list(k) for k in idx]}, 'opts': SH})
    for idx in (['int', 'int'], ['none', 'int', 'none', 'int'], ['none', 'int', 'int', 'none', 'int', 'int'][:4]):
        cs.append({'scen': 'getitem_shape', 's': {'d': 2, 'B': Bs, 'ttm': True, 'too_few': True, 'index': list(idx)}, 'opts': SH})
    for d in (1, 2):
        pk = [('int', 'int'), (S_ALL, S_ALL), (S_SS, S_S1), (S_2, S_STEP)]
        for c in itertools.product(pk, repeat=d):
            idx = [p[0] for p in c] + [p[1] for p in c]
            if sum(1 for k in idx if k != 'int' and 'sym' in k) > 3:
                continue
            cs.append({'scen': 'getitem_shape', 's': {'d': d, 'B': Bs, 'ttm': True, 'index': [k if isinstance(k, str) else list(k) for k in idx]}, 'opts': SH})
    return cs


def opts(tier):
    return {'logic': None, 'qtimeout_ms': 20000, 'final_timeout_ms': 60000 if tier == 'quick' else 240000,
            'max_paths': 200, 'case_timeout_s': 300 if tier == 'quick' else 1500}


def sig(case, label):
    s = case['s']
    if case['scen'] == 'getitem_shape':
        kinds = ['int' if it == 'int' else (it if isinstance(it, str) else 'slice') for it in s['index']]
        return 'getitem_shape:%s:%s%s:%s' % ('ttm' if s.get('ttm') else 'tt', 'bare:' if s.get('bare') else '', '+'.join(sorted(set(kinds))), label)
    if case['scen'] == 'tt_getitem':
        kinds = []
        singleton_kept = False
        len1 = False
        pos = 0
        for it in s['index']:
            if isinstance(it, str):
                kinds.append(it)
                continue
            kinds.append(it[0] if it[0] != 'symint' else 'int')
        n_sl = sum(1 for k in kinds if k == 'slice')
        cls = 'ttm' if 'M' in s else 'tt'
        has_none = 'none' in kinds
        has_ell = 'ell' in kinds
        allint = all(k == 'int' for k in kinds)
        return 'tt_getitem:%s:%s%s%s%s:%s' % (cls, 'bare:' if s.get('bare') else '', 'allint' if allint else ('slices' if n_sl else 'other'),
                                             ':none' if has_none else '', ':ell' if has_ell else '', label)
    from ..run import default_sig
    return default_sig(case, label)


def meta(tier):
    from .. import loader
    tt = loader.load()
    T = tt.TT
    import torchtt._aux_ops as aux
    fns = [T.__getitem__, T.reduce_dims, T.apply_mask, aux.apply_mask]
    return {
        'functions': loader.functions_encoded(fns), 'sig': sig,
        'bounds': 'order 1..3 (thorough 5), mode sizes in {1,2,3,4} incl. singleton modes; per mode every kind from {symbolic int (negative allowed), full slice, '
                  'partial/negative-bound slices, length-1 slices, step-2 slices}; None at every position; leading/trailing Ellipsis with 0..d explicit items; '
                  'bare int/slice/Ellipsis; operators: int pairs and slice pairs; apply_mask with a symbolic M x d index matrix, M <= 3; integer index values '
                  'are solver variables, slice bounds enumerated; rank profiles random per shape plus fixed falling / rising profiles with every int/slice mask',
        'outside': 'IEEE rounding; sizes > 4; values under symbolic slice bounds (only the shape is decided for those, at the shape level: mode sizes in [1,3] (thorough 4), int indices and slice start/stop in [-B-1, B+1], steps in [1,3] as z3 integers); negative steps (torch rejects them)',
        'assumptions': ['symtorch models torch indexing (validated per run against real torch on seeded inputs)',
                        'z3 sat/unsat verdicts; unknown/time-out counted inconclusive'],
        'tv_max': 80,
        'explanation': 'Integer indices are z3 Int variables (selection = if-then-else chains), core entries z3 Reals; z3 decides EXISTS index, values. x[index] != dense[index].',
    }
