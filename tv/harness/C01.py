"""C01 — TT-SVD meets the requested accuracy and rank bounds."""
import random
import itertools
from ..scen.c01 import pattern_in


def so_ok(modes, pattern):
    """does the TT-SVD sweep on this sparsity pattern stay inside the structurally-orthogonal class?
    at every split k: each suffix has a unique prefix (rows disjoint) or each prefix a unique suffix (columns disjoint)."""
    d = len(modes)
    for k in range(1, d):
        pre2suf, suf2pre = {}, {}
        for ix in pattern:
            p, s = tuple(ix[:k]), tuple(ix[k:])
            pre2suf.setdefault(p, set()).add(s)
            suf2pre.setdefault(s, set()).add(p)
        rows_disjoint = all(len(v) == 1 for v in suf2pre.values())
        cols_disjoint = all(len(v) == 1 for v in pre2suf.values())
        if not (rows_disjoint or cols_disjoint):
            return False
        if not rows_disjoint:
            # after a transposed (column-disjoint) step the remainder is a selection: stays in class
            return True
    return True


def gen_patterns(shape, nnz_max, rng, count, modes=None, reindex=None):
    """distinct SO patterns (as sorted tuples) for a dense array of `shape`"""
    allpos = list(itertools.product(*[range(n) for n in shape]))
    out = set()
    tries = 0
    while len(out) < count and tries < count * 60:
        tries += 1
        k = rng.randint(1, min(nnz_max, len(allpos)))
        pat = tuple(sorted(rng.sample(allpos, k)))
        chk = reindex(pat) if reindex else pat
        if so_ok(modes or shape, chk):
            out.add(pat)
    return sorted(out)

THOROUGH_SEEDS = 8


def cases(tier, seed):
    rng = random.Random(seed + 1)
    th = tier == 'thorough'
    cs = []
    # ---- K: the rank selection kernel
    for n in range(1, 7 if not th else 9):
        cs.append({'scen': 'rank_chop_kernel', 's': {'n': n}})
        cs.append({'scen': 'rank_chop_kernel', 's': {'n': n, 'thr_positive': True}})
    # ---- S: sweep on the SO class
    shapes = [[3], [2, 2], [2, 3], [3, 1], [1, 3], [2, 2, 2], [2, 2, 3], [3, 2, 2], [2, 1, 2], [1, 2, 2], [2, 2, 1], [3, 3, 3], [2, 2, 2, 2], [2, 1, 2, 2],
              [3, 1, 3], [3, 3, 1], [1, 3, 3], [3, 1, 1, 3]]
    if th:
        shapes += [[2, 3, 2], [4, 2, 2], [2, 2, 4], [3, 2, 2, 2], [2, 2, 2, 3], [2, 2, 2, 2, 2], [1, 2, 2, 1, 2]]
    for shp in shapes:
        d = len(shp)
        npat = (6 if d <= 3 else 3) if not th else (16 if d <= 3 else 6)
        pats = gen_patterns(shp, 4 if not th else 5, rng, npat)
        # always include the (super)diagonal: every bond sees the same spectrum
        diag = tuple(tuple(min(i, n - 1) for n in shp) for i in range(max(shp)))
        diag = tuple(sorted(set(diag)))
        if so_ok(shp, diag) and diag not in pats:
            pats.append(diag)
        for j, pat in enumerate(pats):
            base = {'shape': shp, 'pattern': [list(p) for p in pat]}
            cs.append({'scen': 'ttsvd', 's': dict(base)})
            if j % 3 == 0:
                cs.append({'scen': 'ttsvd', 's': dict(base, entry='numpy')})
            if j % 3 == 1 and d >= 2:
                for rm in (1, 2, 3):
                    cs.append({'scen': 'ttsvd', 's': dict(base, rmax=rm)})
                cs.append({'scen': 'ttsvd', 's': dict(base, rmax=1, entry='numpy')})       # every entry point honours rmax
            if j % 3 == 2 and d >= 2:
                cs.append({'scen': 'ttsvd', 's': dict(base, rmax=[1] + [1 + (k % 2) for k in range(d - 1)] + [1])})
                cs.append({'scen': 'ttsvd', 's': dict(base, rmax=[1] + [50] * (d - 1) + [1])})
                cs.append({'scen': 'ttsvd', 's': dict(base, rmax=[1] + [3 - (k % 3) for k in range(d - 1)] + [1])})      # decreasing caps (a smaller cap behind a larger one)
                cs.append({'scen': 'ttsvd', 's': dict(base, rmax=[1] + [1 + (k % 2) for k in range(d - 1)] + [1], rmax_np=True)})
    # caps below the number of non-zero singular values but possibly above the rank that eps selects (a cap binds only where it is reached)
    for shp, rms in [([3, 3], (2,)), ([4, 4], (2, 3)), ([3, 3, 3], (2,)), ([4, 3], (2,)), ([2, 4, 4], (2, 3))]:
        dg = [[min(i, n - 1) for n in shp] for i in range(max(shp))]
        dg = [list(t) for t in sorted(set(tuple(q) for q in dg))]
        for rm in rms:
            cs.append({'scen': 'ttsvd', 's': {'shape': shp, 'pattern': dg, 'rmax': rm}})
        cs.append({'scen': 'ttsvd', 's': {'shape': shp, 'pattern': dg, 'rmax': [1] + [rms[-1]] * (len(shp) - 1) + [1], 'entry': 'numpy'}})
    # a smaller cap behind a singleton mode than in front of it (every bond's own cap counts)
    for shp, rm in [([3, 1, 3], [1, 3, 1, 1]), ([3, 1, 3], [1, 3, 2, 1]), ([3, 1, 1, 3], [1, 3, 3, 1, 1]), ([3, 1, 1, 3], [1, 3, 2, 1, 1]), ([2, 3, 1, 3], [1, 2, 3, 2, 1])]:
        dg = [[min(i, n - 1) for n in shp] for i in range(3)]
        cs.append({'scen': 'ttsvd', 's': {'shape': shp, 'pattern': dg, 'rmax': rm}})
        cs.append({'scen': 'ttsvd', 's': {'shape': shp, 'pattern': dg, 'rmax': rm, 'entry': 'numpy'}})
    # single precision tag, incl. one long mode (dtype-dependent thresholds scale with the unfolding size)
    for shp, pat in [([2, 2], [[0, 0], [1, 1]]), ([3, 3], [[0, 0], [1, 1], [2, 2]]), ([20000, 2], [[0, 0], [7, 1]])] + \
                    ([([3, 20000], [[0, 5], [1, 1], [2, 19999]]), ([20000, 2, 2], [[0, 0, 0], [3, 1, 1]])] if th else []):
        for dt in ('float32', 'float64'):
            if dt == 'float64' and max(shp) < 1000:
                continue
            cs.append({'scen': 'ttsvd', 's': {'shape': shp, 'pattern': pat, 'dtype': dt}})
            cs.append({'scen': 'ttsvd', 's': {'shape': shp, 'pattern': pat, 'dtype': dt, 'entry': 'numpy'}})
    # G: arbitrary (sign-free) entries where every unfolding has one row or one column
    for shp in [[1, 3], [3, 1], [1, 1, 3], [1, 3, 1], [3, 1, 1], [1, 4]] + ([[1, 1, 1, 4], [2, 1, 1], [1, 1, 2, 1]] if th else []):
        cs.append({'scen': 'ttsvd', 's': {'shape': shp, 'pattern': [], 'general': True}})
        cs.append({'scen': 'ttsvd', 's': {'shape': shp, 'pattern': [], 'general': True, 'entry': 'numpy'}})
        cs.append({'scen': 'ttsvd', 's': {'shape': shp, 'pattern': [], 'general': True, 'rmax': 1}})
    # constructor with an explicit shape argument (reshape first), incl. order-1 target and singleton modes
    for shp, N in [([4], [2, 2]), ([2, 4], [2, 2, 2]), ([8], [2, 2, 2]), ([2, 3], [6]), ([2, 2], [1, 2, 2]), ([6], [2, 3]), ([4], [2, 1, 2])]:
        pats = gen_patterns(shp, 3, rng, 3 if not th else 8, modes=N, reindex=lambda p, shp=shp, N=N: pattern_in(shp, p, N))
        for j, pat in enumerate(pats):
            cs.append({'scen': 'ttsvd', 's': {'shape': shp, 'N': N, 'pattern': [list(p) for p in pat]}})
            if j == 0 and len(N) >= 2:
                cs.append({'scen': 'ttsvd', 's': {'shape': shp, 'N': N, 'pattern': [list(p) for p in pat], 'rmax': 1, 'entry': 'numpy'}})
                cs.append({'scen': 'ttsvd', 's': {'shape': shp, 'N': N, 'pattern': [list(p) for p in pat], 'rmax': 1}})
    # operators: TT(A, [(m,n),...])
    for M, N in [([2], [3]), ([2, 2], [2, 2]), ([2, 1], [1, 2]), ([1, 2], [2, 1]), ([2, 2], [1, 3])] + ([([2, 2, 2], [2, 1, 2]), ([3, 2], [2, 2])] if th else []):
        d = len(N)
        shp = list(M) + list(N)
        modes = [m * n for m, n in zip(M, N)]

        def reidx(p, M=M, N=N, d=d):
            return [tuple(ix[i] * N[i] + ix[d + i] for i in range(d)) for ix in p]
        pats = gen_patterns(shp, 4, rng, 4 if not th else 10, modes=modes, reindex=reidx)
        for j, pat in enumerate(pats):
            base = {'shape': shp, 'M': M, 'N': N, 'ttm': True, 'pattern': [list(p) for p in pat]}
            cs.append({'scen': 'ttsvd', 's': dict(base)})
            if j % 2 == 0:
                cs.append({'scen': 'ttsvd', 's': dict(base, entry='numpy')})
            if j % 2 == 1 and d >= 2:
                for rm in (1, 2):
                    cs.append({'scen': 'ttsvd', 's': dict(base, rmax=rm)})
                cs.append({'scen': 'ttsvd', 's': dict(base, rmax=1, entry='numpy')})
    # complex128 copies of a sample (symbolic positive moduli with fixed rational unit phases; arbitrary complex entries for the one-row/one-column shapes)
    from .C03 import _pick
    pool = [c for c in cs if c['scen'] == 'ttsvd' and 'dtype' not in c['s']]
    for c in _pick(pool, 30 if not th else 80, rng):
        cs.append({'scen': 'ttsvd', 's': dict(c['s'], dtype='complex128')})
    return cs


def opts(tier):
    return {'logic': 'QF_NRA', 'qtimeout_ms': 20000, 'final_timeout_ms': 60000 if tier == 'quick' else 240000,
            'max_paths': 600 if tier == 'quick' else 3000, 'case_timeout_s': 500 if tier == 'quick' else 3000,
            'scalar_mode': 'A', 'setup': {'factor_mode': 'exact', 'signs': False}}


def sig(case, label):
    s = case['s']
    if case['scen'] == 'rank_chop_kernel':
        return 'rank_chop_kernel:%s' % label.rstrip('0123456789').rstrip('_')
    kind = 'ttm' if s.get('ttm') else ('reshape' if s.get('N') else 'tt')
    return 'ttsvd:%s:%s:%s:%s' % (kind, s.get('entry', 'torch'), 'rmax' if s.get('rmax') else 'normax', label.rstrip('0123456789').rstrip('_'))


def meta(tier):
    from .. import loader
    tt = loader.load()
    import torchtt._decomposition as dec
    fns = [dec.rank_chop, dec.SVD, dec.to_tt, dec.mat_to_tt, tt.TT.__init__]
    return {
        'functions': loader.functions_encoded(fns), 'sig': sig,
        'bounds': 'K: rank_chop on symbolic sorted non-negative vectors of length 1..6 (thorough 8) with a symbolic threshold of any sign. '
                  'S: dense inputs of order 1..4 (thorough 5), mode sizes 1..3 (4), with <= 4 (5) non-zero entries of symbolic positive magnitude on sparsity patterns on which '
                  'every unfolding of the sweep has rows or columns with disjoint supports (structurally-orthogonal class: exact symbolic SVD); eps symbolic in (0,1); '
                  'rmax absent, each of 1..3, or a per-bond list; torch and numpy sources, shape argument, operator shapes; patterns: seeded sample + diagonals. '
                  'G: dense inputs with arbitrary sign-free entries whose every unfolding has a single row or column (1 x n, n x 1, 1 x 1 x n, ...)',
        'outside': 'dense inputs outside the structurally-orthogonal class (general SVD is not encodable), float32/complex SVD, IEEE rounding (reals; the "up to roundoff" slack is 1e-9 relative), '
                   'the unfolding-rank bound is checked against the generic (term) rank of the pattern, which equals the exact rank on this class',
        'assumptions': ['torch.linalg.svd replaced by the exact structural SVD model of tv/factor.py (one valid SVD; ties broken either way by the explorer)',
                        'symtorch/symnumpy model validated per run against real torch', 'z3 sat/unsat verdicts; unknown counted inconclusive'],
        'tv_max': 50,
        'explanation': 'Each path of the real rank_chop/to_tt/mat_to_tt code fixes which singular values were kept; on it z3 decides EXISTS magnitudes, eps, rmax. '
                       'rank bound or ||A - full(T)||^2 <= eps^2 ||A||^2 fails.',
    }
