"""C04 — TT-matrix algebra equals dense linear-operator algebra."""
import random
from .C03 import _rank_profiles, _pick

THOROUGH_SEEDS = 6


def cases(tier, seed):
    from .C03 import add_via
    return add_via(_cases(tier, seed), 6 if tier == 'quick' else 4, ('ttm_matvec', 'ttm_vecmat', 'ttm_matmat', 'ttm_dense_matvec', 'ttm_transpose', 'ttm_binop', 'ttm_scalar'))


def _cases(tier, seed):
    rng = random.Random(seed + 4)
    th = tier == 'thorough'
    cs = []
    # (M, N) structures: rectangular, row/column sizes distinct wherever the bound allows
    mn = {1: [([2], [3]), ([1], [3]), ([3], [1]), ([1], [1]), ([2], [2])],
          2: [([2, 3], [3, 1]), ([1, 2], [2, 3]), ([2, 2], [2, 2]), ([3, 1], [1, 2]), ([1, 1], [1, 1])],
          3: [([2, 1, 2], [1, 3, 2]), ([1, 2, 1], [2, 1, 3]), ([2, 2, 1], [1, 2, 2])]}
    if th:
        mn[2] += [([4, 2], [3, 1]), ([2, 4], [3, 2])]
        mn[3] += [([2, 3, 2], [3, 2, 1]), ([1, 1, 1], [1, 1, 1])]
        mn[1] += [([4], [3]), ([3], [4])]
        mn[4] = [([2, 1, 2, 1], [1, 2, 1, 2]), ([2, 2, 1, 2], [1, 2, 2, 1]), ([1, 2, 2, 2], [2, 2, 1, 1])]
    for d, lst in mn.items():
        ch = [1, 2, 3] if d <= 2 else [1, 2]
        npick = (4 if d <= 2 else 2) if not th else (24 if d <= 2 else 8)
        for M, N in lst:
            profs = _rank_profiles(d, ch)
            pairs = [(a, b) for a in profs for b in profs if a != b or max(a) == 1]
            for RA, Rx in _pick(pairs, npick, rng):
                cs.append({'scen': 'ttm_matvec', 's': {'M': M, 'N': N, 'RA': RA, 'Rx': Rx, 'dtype': 'float64'}})
                cs.append({'scen': 'ttm_vecmat', 's': {'M': M, 'N': N, 'RA': RA, 'Rx': Rx, 'dtype': 'float64'}})
                for op in ('add', 'sub', 'mul'):
                    if op == 'mul' and d >= 3 and max(RA) * max(Rx) > 4 and not th:
                        continue
                    cs.append({'scen': 'ttm_binop', 's': {'op': op, 'M': M, 'N': N, 'RA': RA, 'RB': Rx, 'dtype': 'float64'}})
                # inner sizes K distinct from M and N where possible
                K = [((m + n) % 3) + 1 for m, n in zip(M, N)]
                if d <= 2 or th or max(RA) * max(Rx) <= 2:
                    cs.append({'scen': 'ttm_matmat', 's': {'M': M, 'K': K, 'N': N, 'RA': RA, 'RB': Rx, 'dtype': 'float64'}})
            RA = _pick(_rank_profiles(d, ch), 1, rng)[0]
            cs.append({'scen': 'ttm_transpose', 's': {'M': M, 'N': N, 'RA': RA, 'dtype': 'float64'}})
            for batch in ([], [2], [1], [2, 1], [1, 1], [1, 2, 2]):
                if len(batch) == 3 and d == 3 and not th:
                    continue
                cs.append({'scen': 'ttm_dense_matvec', 's': {'M': M, 'N': N, 'RA': RA, 'batch': batch, 'dtype': 'float64'}})
    # dtypes
    for dt in ('complex128', 'float32') + (('complex64',) if th else ()):
        M, N = [2, 1], [1, 3]
        RA, Rx = [1, 2, 1], [1, 3, 1]
        cs.append({'scen': 'ttm_matvec', 's': {'M': M, 'N': N, 'RA': RA, 'Rx': Rx, 'dtype': dt}})
        cs.append({'scen': 'ttm_vecmat', 's': {'M': M, 'N': N, 'RA': RA, 'Rx': Rx, 'dtype': dt}})
        cs.append({'scen': 'ttm_matmat', 's': {'M': M, 'K': [3, 2], 'N': N, 'RA': RA, 'RB': [1, 2, 1], 'dtype': dt}})
        cs.append({'scen': 'ttm_transpose', 's': {'M': M, 'N': N, 'RA': RA, 'dtype': dt}})
        cs.append({'scen': 'ttm_dense_matvec', 's': {'M': M, 'N': N, 'RA': RA, 'batch': [2], 'dtype': dt}})
        for op in ('add', 'sub', 'mul'):
            cs.append({'scen': 'ttm_binop', 's': {'op': op, 'M': M, 'N': N, 'RA': RA, 'RB': [1, 1, 1], 'dtype': dt}})
    # dense operands of another dtype than the operator (refused, or the product in the promoted dtype)
    for dt, dtx in (('float64', 'complex128'), ('complex128', 'float64'), ('float32', 'float64'), ('float64', 'float32')):
        for M, N, RA, batch in [([2], [3], [1, 1], []), ([2, 1], [1, 3], [1, 2, 1], [2])]:
            cs.append({'scen': 'ttm_dense_matvec', 's': {'M': M, 'N': N, 'RA': RA, 'batch': batch, 'dtype': dt, 'dtype_x': dtx}})
    # scalar operations on operators
    for M, N, RA in [([2], [3], [1, 1]), ([2, 1], [1, 3], [1, 2, 1]), ([1, 2, 2], [2, 1, 2], [1, 2, 2, 1]), ([2, 2], [1, 3], [1, 1, 1]), ([2, 1, 2], [1, 2, 2], [1, 2, 1, 1]),
                     ([2, 1, 2], [1, 2, 2], [1, 1, 2, 1])]:
        for op in ('add', 'radd', 'sub', 'rsub', 'mul', 'rmul', 'div'):
            for sk in ('float', 'tensor0', 'tensor1'):
                if op in ('radd', 'rsub', 'rmul') and sk != 'float':
                    continue
                s = {'op': op, 'M': M, 'N': N, 'RA': RA, 'dtype': 'float64', 'skind': sk}
                if op == 'div':
                    s['nonzero'] = True
                cs.append({'scen': 'ttm_scalar', 's': s})
            for iv in (0, 3):
                if op == 'div' and iv == 0:
                    continue
                cs.append({'scen': 'ttm_scalar', 's': {'op': op, 'M': M, 'N': N, 'RA': RA, 'dtype': 'float64', 'skind': 'int', 'ival': iv}})
        if len(N) <= 2:
            for op in ('div', 'mul'):
                for tval, tdt in ((3, 'int64'), ([7], 'int64'), (3.0, 'float32')):
                    cs.append({'scen': 'ttm_scalar', 's': {'op': op, 'M': M, 'N': N, 'RA': RA, 'dtype': 'float64', 'skind': 'tensor_concrete', 'tval': tval, 'tdtype': tdt}})
        cs.append({'scen': 'ttm_scalar', 's': {'op': 'neg', 'M': M, 'N': N, 'RA': RA, 'dtype': 'float64', 'skind': 'none'}})
    for dt in ('float64', 'complex128'):
        for op in ('mul', 'rmul'):
            cs.append({'scen': 'ttm_scalar', 's': {'op': op, 'M': [2, 1], 'N': [1, 3], 'RA': [1, 2, 1], 'dtype': dt, 'skind': 'complex'}})
    # the operands alias each other: A (op) A, and two objects over one core list
    for M, N, RA in [([2], [3], [1, 1]), ([2, 1], [1, 3], [1, 2, 1]), ([2, 2, 1], [1, 2, 2], [1, 2, 2, 1])]:
        for op in ('add', 'sub', 'mul'):
            for al in ('same', 'shared_list'):
                cs.append({'scen': 'ttm_binop', 's': {'op': op, 'M': M, 'N': N, 'RA': RA, 'RB': RA, 'dtype': 'float64', 'alias': al}})
    # zero scalars on operators of every dtype (the zero shortcut builds its own cores)
    for dt in ('complex128', 'float32', 'complex64'):
        for op in ('mul', 'rmul', 'add', 'sub', 'rsub'):
            cs.append({'scen': 'ttm_scalar', 's': {'op': op, 'M': [2, 1], 'N': [1, 3], 'RA': [1, 2, 1], 'dtype': dt, 'skind': 'int', 'ival': 0}})
    for fv in (0.1, 1.0000000596046448):
        for op in ('add', 'sub', 'rsub', 'mul', 'rmul', 'div'):
            cs.append({'scen': 'ttm_scalar', 's': {'op': op, 'M': [2, 1], 'N': [1, 3], 'RA': [1, 2, 1], 'dtype': 'float64', 'skind': 'pyfloat', 'fval': fv}})
    return cs


def opts(tier):
    return {'logic': 'QF_NRA', 'qtimeout_ms': 20000, 'final_timeout_ms': 60000 if tier == 'quick' else 240000,
            'max_paths': 64, 'case_timeout_s': 300 if tier == 'quick' else 1500}


def meta(tier):
    from .. import loader
    tt = loader.load()
    T = tt.TT
    import torchtt._aux_ops as aux
    fns = [T.__matmul__, aux.dense_matvec, T.t, T.__add__, T.__sub__, T.__mul__, T.__truediv__, T.__neg__, T.full, T.__init__]
    return {
        'functions': loader.functions_encoded(fns),
        'bounds': 'order 1..3 (thorough 4); row/column/inner mode sizes in {1,2,3,4}, rectangular and pairwise distinct where the bound allows; '
                  'rank profiles in {1,2,3} distinct on the two operands; dense operands with 0..3 leading batch dims (incl. batch shapes [1] and [1,1]); all entries symbolic',
        'outside': 'IEEE rounding; sizes > 4, ranks > 3, order > 4',
        'assumptions': ['symtorch models torch (validated per run against real torch on seeded inputs)',
                        'z3 sat/unsat verdicts; unknown/time-out counted inconclusive', 'real arithmetic instead of IEEE floats'],
        'tv_max': 60,
        'explanation': 'z3 decides EXISTS core values. contracted TT result != dense operator expression, per structure.',
    }
