"""C03 — TT-tensor arithmetic equals dense arithmetic entry for entry."""
import itertools
import random


def _rank_profiles(d, choices):
    if d == 1:
        return [[1, 1]]
    out = []
    for mid in itertools.product(choices, repeat=d - 1):
        out.append([1] + list(mid) + [1])
    return out


def _pick(lst, n, rng):
    if len(lst) <= n:
        return list(lst)
    return rng.sample(lst, n)

THOROUGH_SEEDS = 1


def add_via(cs, every, ttm_scens=()):
    """every `every`-th case is repeated with operands that are strided views of a larger object (and transposes for operators)"""
    extra = []
    for i, c in enumerate(cs):
        if i % every == 0 and 'via' not in c['s'] and c['scen'] not in ('tt_factories', 'tt_cat_none'):
            extra.append({**c, 's': dict(c['s'], via='sliced')})
            if c['scen'] in ttm_scens:
                extra.append({**c, 's': dict(c['s'], via='transposed')})
    return cs + extra


def cases(tier, seed):
    return add_via(_cases(tier, seed), 6 if tier == 'quick' else 4)


def _cases(tier, seed):
    rng = random.Random(seed)
    thorough = tier == 'thorough'
    cs = []
    # ---- equal-shape binary operations
    shapes = {1: [[1], [3]], 2: [[2, 3], [1, 3], [3, 1], [1, 1]],
              3: [[2, 3, 4], [2, 1, 3], [1, 1, 1], [1, 2, 1], [3, 2, 1]],
              4: [[2, 3, 1, 2], [1, 2, 2, 3], [2, 1, 1, 2]]}
    if thorough:
        shapes[4] += [[2, 3, 2, 3], [1, 1, 1, 1]]
        shapes[5] = [[2, 1, 2, 3, 2], [1, 2, 1, 2, 1], [2, 2, 2, 2, 2]]
    for d, Ns in shapes.items():
        for N in Ns:
            profs = _rank_profiles(d, [1, 2, 3] if d <= 3 else [1, 2])
            pairs = [(a, b) for a in profs for b in profs if a != b or max(a) == 1]
            n = (6 if d <= 3 else 3) if not thorough else (24 if d <= 3 else 8)
            for R1, R2 in _pick(pairs, n, rng):
                for op in ('add', 'sub', 'mul'):
                    if op == 'mul' and d >= 4 and max(R1) * max(R2) > 4 and not thorough:
                        continue
                    cs.append({'scen': 'tt_binop', 's': {'op': op, 'N1': N, 'R1': R1, 'N2': N, 'R2': R2, 'dtype': 'float64'}})
    # ---- the two operands are the same object
    for N, R in [([3], [1, 1]), ([2, 3], [1, 2, 1]), ([2, 1, 3], [1, 2, 2, 1])]:
        for op in ('add', 'sub', 'mul'):
            cs.append({'scen': 'tt_binop', 's': {'op': op, 'N1': N, 'R1': R, 'N2': N, 'R2': R, 'dtype': 'float64', 'alias': True}})
            cs.append({'scen': 'tt_binop', 's': {'op': op, 'N1': N, 'R1': R, 'N2': N, 'R2': R, 'dtype': 'float64', 'alias': 'shared_list'}})
    # ---- broadcasting alignments (second operand broadcasts into the first)
    bc = [([2, 3, 4], [3, 4]), ([2, 3, 4], [4]), ([2, 3, 4], [1, 4]), ([2, 3, 4], [3, 1]), ([2, 3, 4], [1, 3, 1]),
          ([2, 3, 4], [1, 1, 1]), ([2, 3, 4], [2, 1, 4]), ([2, 3, 4], [1]), ([2, 3], [2, 1]), ([2, 3], [1, 3]),
          ([2, 3], [1, 1]), ([3], [1]), ([2, 1, 3], [1, 3]), ([2, 1, 3], [1, 1, 3]), ([1, 2, 3], [2, 1]),
          ([2, 3, 1, 2], [1, 2]), ([2, 3, 1, 2], [3, 1, 1])]
    if thorough:
        bc += [([2, 3, 2, 3], [2, 3]), ([2, 3, 2, 3], [1, 2, 1]), ([2, 1, 2, 3, 2], [3, 1]), ([2, 1, 2, 3, 2], [1, 1, 3, 2])]
    for N1, N2 in bc:
        p1 = _pick(_rank_profiles(len(N1), [1, 2, 3] if len(N1) <= 3 else [1, 2]), 2 if not thorough else 5, rng)
        p2 = _pick(_rank_profiles(len(N2), [1, 2, 3] if len(N2) <= 3 else [1, 2]), 2 if not thorough else 4, rng)
        for R1 in p1:
            for R2 in p2:
                for op in ('add', 'sub', 'mul'):
                    cs.append({'scen': 'tt_binop', 's': {'op': op, 'N1': N1, 'R1': R1, 'N2': N2, 'R2': R2, 'dtype': 'float64'}})
    # ---- the same after unrelated public calls on the same mode sizes (no state may leak between calls)
    for N1, N2 in [([2, 3, 4], [3, 4]), ([2, 3, 4], [4]), ([2, 3], [1, 3]), ([2, 3, 4], [2, 3, 4]), ([3], [1]), ([2, 3, 1, 2], [1, 2])]:
        R1 = [1] + [2] * (len(N1) - 1) + [1]
        R2 = [1] + [2] * (len(N2) - 1) + [1]
        for op in ('add', 'sub', 'mul'):
            cs.append({'scen': 'tt_binop', 's': {'op': op, 'N1': N1, 'R1': R1, 'N2': N2, 'R2': R2, 'dtype': 'float64', 'prelude': 'unrelated_calls'}})
    # ---- dtypes: complex and float32 on a subset
    for dt in ('complex128', 'float32') + (('complex64',) if thorough else ()):
        for N, R1, R2 in [([2, 3], [1, 2, 1], [1, 3, 1]), ([2, 1, 3], [1, 2, 2, 1], [1, 1, 2, 1])]:
            for op in ('add', 'sub', 'mul'):
                cs.append({'scen': 'tt_binop', 's': {'op': op, 'N1': N, 'R1': R1, 'N2': N, 'R2': R2, 'dtype': dt}})
        cs.append({'scen': 'tt_binop', 's': {'op': 'mul', 'N1': [2, 3, 2], 'R1': [1, 2, 2, 1], 'N2': [3, 1], 'R2': [1, 2, 1], 'dtype': dt}})
        cs.append({'scen': 'tt_binop', 's': {'op': 'add', 'N1': [2, 3, 2], 'R1': [1, 2, 2, 1], 'N2': [3, 1], 'R2': [1, 2, 1], 'dtype': dt}})
    # ---- scalar operations
    structs = [([3], [1, 1]), ([2, 3], [1, 2, 1]), ([2, 1, 3], [1, 2, 3, 1]), ([1, 1], [1, 2, 1]), ([2, 3], [1, 1, 1]), ([2, 2, 3], [1, 2, 1, 1]), ([2, 2, 3], [1, 1, 2, 1])]
    if thorough:
        structs += [([2, 3, 2, 2], [1, 2, 3, 2, 1]), ([1], [1, 1]), ([2, 2, 1, 2, 2], [1, 2, 2, 2, 2, 1])]
    for N, R in structs:
        for op in ('add', 'radd', 'sub', 'rsub', 'mul', 'rmul', 'div'):
            for sk in ('float', 'npfloat', 'npfloat32', 'npint', 'tensor0', 'tensor1'):
                if op in ('radd', 'rsub', 'rmul') and sk in ('tensor0', 'tensor1', 'npfloat', 'npfloat32', 'npint'):
                    continue   # torch / numpy scalars on the left dispatch to torch / numpy first: not a torchtt entry point
                s = {'op': op, 'N': N, 'R': R, 'dtype': 'float64', 'skind': sk}
                if op == 'div':
                    s['nonzero'] = True
                cs.append({'scen': 'tt_scalar', 's': s})
            for iv in (0, 2, -1):
                if op == 'div' and iv == 0:
                    continue
                cs.append({'scen': 'tt_scalar', 's': {'op': op, 'N': N, 'R': R, 'dtype': 'float64', 'skind': 'int', 'ival': iv}})
        for op in ('neg', 'pos'):
            cs.append({'scen': 'tt_scalar', 's': {'op': op, 'N': N, 'R': R, 'dtype': 'float64', 'skind': 'none'}})
    # one-element tensors of integer / single-precision dtype with concrete values (3, [7], 3.0f, [0.1f]) on double-precision operands
    for N, R in structs[:2]:
        for op in ('div', 'mul', 'add', 'sub'):
            for tval, tdt in ((3, 'int64'), ([7], 'int64'), (3.0, 'float32'), ([0.1], 'float32')):
                cs.append({'scen': 'tt_scalar', 's': {'op': op, 'N': N, 'R': R, 'dtype': 'float64', 'skind': 'tensor_concrete', 'tval': tval, 'tdtype': tdt}})
    cs.append({'scen': 'tt_scalar', 's': {'op': 'div', 'N': [2, 3], 'R': [1, 2, 1], 'dtype': 'complex128', 'skind': 'tensor_concrete', 'tval': 3, 'tdtype': 'int64'}})
    # double-precision scalars (numpy float64, 0-d float64 tensor) on single-precision operands: a scalar does not promote the operand
    for dt in ('float32', 'complex64'):
        for op in ('add', 'sub', 'mul', 'div') + (('radd', 'rsub', 'rmul') if dt == 'float32' else ()):
            if op not in ('radd', 'rsub', 'rmul'):
                cs.append({'scen': 'tt_scalar', 's': {'op': op, 'N': [2, 3], 'R': [1, 2, 1], 'dtype': dt, 'skind': 'tensor_concrete', 'tval': 1.5, 'tdtype': 'float64'}})
                cs.append({'scen': 'tt_scalar', 's': {'op': op, 'N': [2, 3], 'R': [1, 2, 1], 'dtype': dt, 'skind': 'npscalar', 'nptype': 'float64', 'cval': 1.5}})
            else:
                cs.append({'scen': 'tt_scalar', 's': {'op': op, 'N': [2, 3], 'R': [1, 2, 1], 'dtype': dt, 'skind': 'pyfloat', 'fval': 1.5}})
    for dt in ('complex128', 'float32'):
        for op in ('add', 'sub', 'mul', 'rmul', 'div', 'neg'):
            s = {'op': op, 'N': [2, 3], 'R': [1, 2, 1], 'dtype': dt, 'skind': 'float' if op != 'neg' else 'none'}
            if op == 'div':
                s['nonzero'] = True
            cs.append({'scen': 'tt_scalar', 's': s})
    for op in ('add', 'mul', 'rmul', 'sub'):
        cs.append({'scen': 'tt_scalar', 's': {'op': op, 'N': [2, 3], 'R': [1, 2, 1], 'dtype': 'complex128', 'skind': 'complex'}})
    # concrete numpy scalars of every kind (complex ones keep their imaginary part; float32 / int ones their value)
    for nt, cv in (('complex128', [2.0, 1.0]), ('complex128', [0.0, 2.0]), ('float32', 0.5), ('int64', 3), ('float64', 0.1)):
        for op in ('mul', 'rmul', 'add', 'sub', 'div'):
            for dt in ('float64', 'complex128'):
                if nt.startswith('complex') and (op not in ('mul', 'rmul')):
                    continue
                cs.append({'scen': 'tt_scalar', 's': {'op': op, 'N': [2, 3], 'R': [1, 2, 1], 'dtype': dt, 'skind': 'npscalar', 'nptype': nt, 'cval': cv}})
    # zero scalars on tensors of every dtype
    for dt in ('complex128', 'float32', 'complex64'):
        for op in ('mul', 'rmul', 'add', 'sub', 'rsub'):
            cs.append({'scen': 'tt_scalar', 's': {'op': op, 'N': [2, 3], 'R': [1, 2, 1], 'dtype': dt, 'skind': 'int', 'ival': 0}})
    # concrete python floats that float32 cannot represent: the scalar must reach the cores in double precision
    for fv in (0.1, 1.0000000596046448, -7.77):
        for op in ('add', 'radd', 'sub', 'rsub', 'mul', 'rmul', 'div'):
            for dt in ('float64', 'complex128'):
                if dt == 'complex128' and op not in ('mul', 'div', 'add'):
                    continue
                cs.append({'scen': 'tt_scalar', 's': {'op': op, 'N': [2, 3], 'R': [1, 2, 1], 'dtype': dt, 'skind': 'pyfloat', 'fval': fv}})
    # a complex python scalar is a documented operand of `*`: real operands are promoted as in dense arithmetic
    for dt in ('float64', 'float32'):
        for op in ('mul', 'rmul'):
            cs.append({'scen': 'tt_scalar', 's': {'op': op, 'N': [2, 3], 'R': [1, 2, 1], 'dtype': dt, 'skind': 'complex'}})
            cs.append({'scen': 'tt_scalar', 's': {'op': op, 'N': [3], 'R': [1, 1], 'dtype': dt, 'skind': 'complex'}})
    # ---- kron, full, factories
    for N1, R1, N2, R2 in [([2], [1, 1], [3], [1, 1]), ([2, 3], [1, 2, 1], [3, 1, 2], [1, 3, 2, 1]), ([1], [1, 1], [2, 2], [1, 2, 1])]:
        for how in ('pow', 'kron', 'none_right', 'none_left'):
            cs.append({'scen': 'tt_kron', 's': {'how': how, 'N1': N1, 'R1': R1, 'N2': N2, 'R2': R2, 'dtype': 'float64'}})
    cs.append({'scen': 'tt_kron', 's': {'how': 'pow', 'N1': [2, 3], 'R1': [1, 2, 1], 'N2': [2], 'R2': [1, 1], 'dtype': 'complex128'}})
    fulls = [([3], [1, 1], None), ([2, 3], [1, 2, 1], None), ([2, 3, 4], [1, 2, 3, 1], None), ([1, 2, 1, 3], [1, 2, 2, 3, 1], None),
             ([3], [1, 1], [2]), ([2, 3], [1, 2, 1], [3, 1]), ([2, 3, 2], [1, 2, 3, 1], [1, 2, 3]), ([1, 1], [1, 2, 1], [1, 1])]
    if thorough:
        fulls += [([2, 3, 2, 3, 2], [1, 2, 2, 2, 2, 1], None), ([2, 1, 2, 2], [1, 2, 2, 2, 1], [1, 2, 3, 1])]
    for N, R, M in fulls:
        for dt in ('float64', 'complex128'):
            s = {'N': N, 'R': R, 'dtype': dt}
            if M:
                s['M'] = M
            cs.append({'scen': 'tt_full', 's': s})
    for N in ([3], [2, 3], [1, 2, 3], [2, 1], [1, 1, 1], [2, 2, 3], [3, 2, 2, 3]):
        for kind in ('ones', 'zeros', 'eye', 'rank1', 'meshgrid'):
            for dt in ('float64', 'float32'):
                cs.append({'scen': 'tt_factories', 's': {'kind': kind, 'N': N, 'dtype': dt}})
        M = [n % 3 + 1 for n in N]
        for kind in ('ones_ttm', 'zeros_ttm', 'rank1_ttm'):
            cs.append({'scen': 'tt_factories', 's': {'kind': kind, 'N': N, 'M': M, 'dtype': 'float64'}})
    return cs


def opts(tier):
    return {'logic': 'QF_NRA', 'qtimeout_ms': 20000, 'final_timeout_ms': 60000 if tier == 'quick' else 240000,
            'max_paths': 64, 'case_timeout_s': 300 if tier == 'quick' else 1500}


def meta(tier):
    from .. import loader
    tt = loader.load()
    T = tt.TT
    fns = [T.__add__, T.__radd__, T.__sub__, T.__rsub__, T.__mul__, T.__rmul__, T.__truediv__, T.__neg__, T.__pos__,
           T.__pow__, T.full, T.__init__, tt.kron, tt.ones, tt.zeros, tt.eye, tt.rank1TT, tt.meshgrid]
    return {
        'functions': loader.functions_encoded(fns),
        'bounds': 'order 1..4 (thorough 5); mode sizes in {1,2,3,4}; ranks in {1,2,3}; rank profiles of the two operands distinct; '
                  'every listed broadcasting alignment of a second operand into the first; all core entries and scalar operands symbolic reals '
                  '(complex: symbolic re/im pairs); int scalars enumerated {0,2,-1}; six structures repeated after a prelude of unrelated public calls (scalar / w with the AMEn kernel replaced by its contract, w / scalar, scalar - w, w * 0, ones * scalar)',
        'outside': 'IEEE rounding/overflow/NaN (arithmetic is over the reals); sizes > 4, ranks > 3, order > 5; broadcasting where the FIRST operand '
                   'has fewer or size-1 modes (library raises a documented ShapeMismatch); torch/numpy scalars on the left (dispatch to torch/numpy)',
        'assumptions': ['symtorch models torch (validated per run against real torch on seeded inputs)',
                        'z3 sat/unsat verdicts; unknown/time-out counted inconclusive',
                        'real arithmetic instead of IEEE floats', 'division scenarios assume a non-zero divisor'],
        'tv_max': 60,
        'explanation': 'Each case fixes orders/sizes/ranks (the unwinding bound) and leaves every core entry and scalar symbolic; z3 decides '
                       'EXISTS values. TT result != dense reference per path of the real operator code.',
    }
