"""C10 — reshape, permute and QTT conversion preserve the tensor up to the given eps."""
import random
import itertools
from .C02 import gen_tt_pattern, all_ranks_used
from .C03 import _rank_profiles, _pick


def factorisations(n, maxlen=3):
    """ordered factorisations of n into factors >= 1 (1 only as inserted singleton), length <= maxlen"""
    out = set()

    def rec(rem, cur):
        if rem == 1 and cur:
            out.add(tuple(cur))
        if len(cur) >= maxlen:
            return
        for f in range(2, rem + 1):
            if rem % f == 0:
                rec(rem // f, cur + [f])
    rec(n, [])
    return sorted(out)


def with_singletons(shape):
    res = [list(shape)]
    for pos in (0, len(shape) // 2 + (1 if len(shape) > 1 else 0), len(shape)):
        t = list(shape)
        t.insert(min(pos, len(t)), 1)
        if t not in res:
            res.append(t)
    return res


def pats_for(N, R, rng, M=None, tries=200, target=None):
    """SO core patterns with every rank index used; if a target shape is given, prefer patterns whose dense
    tensor stays structurally orthogonal in the target unfoldings as well"""
    from ..scen.c02 import dense_pattern
    from ..scen.c01 import pattern_in
    from .C01 import so_ok
    best = None
    for i in range(tries):
        p = gen_tt_pattern(N, R, rng, M=M, dense_slices=(i % 2 == 0), skip=0.25 if i < 20 else (0.5 if i < 80 else 0.75))
        if not all_ranks_used(p, R):
            continue
        if best is None:
            best = p
        if target is None:
            best = p
            break
        if M is not None:
            # operators: target = (tM, tN); the sweep sees the interleaved modes m_i * n_i
            tM, tN = target
            dp = dense_pattern(N, R, p, M)            # positions in the interleaved source modes
            src_modes = [m * n for m, n in zip(M, N)]
            full = []
            for ix in dp:
                mi = [v // N[i] for i, v in enumerate(ix)]
                ni = [v % N[i] for i, v in enumerate(ix)]
                full.append(tuple(mi) + tuple(ni))
            t_full = pattern_in(list(M) + list(N), full, list(tM) + list(tN))
            dt = len(tN)
            inter = [tuple(ix[i] * tN[i] + ix[dt + i] for i in range(dt)) for ix in t_full]
            if so_ok([m * n for m, n in zip(tM, tN)], inter):
                best = p
                break
            continue
        dp = dense_pattern(N, R, p)
        if so_ok(target, pattern_in(N, dp, target)):
            best = p
            break
    if best is None:
        best = gen_tt_pattern(N, R, rng, M=M, dense_slices=True)
    return [[list(q) for q in pk] for pk in best]

THOROUGH_SEEDS = 4


def cases(tier, seed):
    rng = random.Random(seed + 10)
    th = tier == 'thorough'
    cs = []
    # ---- reshape (tensors)
    srcs = [([4], [1, 1]), ([2, 2], [1, 2, 1]), ([4, 2], [1, 2, 1]), ([2, 4], [1, 2, 1]), ([2, 2, 2], [1, 2, 2, 1]), ([6], [1, 1]), ([2, 3], [1, 2, 1]),
            ([3, 2], [1, 2, 1]), ([4, 3], [1, 3, 1]), ([2, 2, 3], [1, 2, 2, 1]), ([4, 3, 1], [1, 2, 1, 1]), ([1, 4], [1, 1, 1]), ([2, 1, 2], [1, 2, 2, 1])]
    if th:
        srcs += [([2, 2, 2, 2], [1, 2, 2, 2, 1]), ([4, 4], [1, 3, 1]), ([2, 6], [1, 2, 1]), ([3, 2, 2, 2], [1, 2, 2, 2, 1]), ([8, 2], [1, 2, 1])]
    for N, R in srcs:
        n = 1
        for k in N:
            n *= k
        targets = []
        for f in factorisations(n, 3 if not th else 4):
            for t in (with_singletons(f) if len(f) <= 2 else [list(f)]):
                if t != N and t not in targets:
                    targets.append(t)
        targets = _pick(targets, 5 if not th else 14, rng)
        for t in targets:
            s = {'N': N, 'R': R, 'patterns': pats_for(N, R, rng, target=t), 'target': t}
            if len(N) >= 3:
                s['sym_cores'] = sorted(rng.sample(range(len(N)), 2))
            cs.append({'scen': 'tt_reshape', 's': s})
            if rng.random() < 0.4:
                cs.append({'scen': 'tt_reshape', 's': dict(s, eps='default')})
    # arbitrary sign-free entries, rank-1 sources (incl. the zero tensor), mode-merging targets (splits of a dense rank-1 block need a general SVD: outside)
    for N, t in [([2, 2], [4]), ([2, 3], [6]), ([2, 2], [2, 1, 2]), ([2, 2, 2], [4, 2]), ([3, 2], [1, 6])] + ([([2, 2, 2], [8]), ([3, 2, 2], [6, 2]), ([2, 2, 2, 2], [4, 4])] if th else []):
        cs.append({'scen': 'tt_reshape', 's': {'N': N, 'R': [1] * (len(N) + 1), 'patterns': [], 'general': True, 'target': t}})
        cs.append({'scen': 'tt_reshape', 's': {'N': N, 'R': [1] * (len(N) + 1), 'patterns': [], 'general': True, 'target': t, 'eps': 'default'}})
    # ---- reshape (operators)
    for M, N, R, tM, tN in [([4], [4], [1, 1], [2, 2], [2, 2]), ([2, 2], [2, 2], [1, 2, 1], [4], [4]), ([4, 2], [2, 2], [1, 2, 1], [2, 2, 2], [2, 2, 1]),
                            ([2, 2], [3, 2], [1, 2, 1], [4], [6]), ([2, 2], [2, 2], [1, 2, 1], [2, 1, 2], [2, 1, 2]), ([4], [2], [1, 1], [2, 2], [1, 2]),
                            ([2, 2], [2, 2], [1, 2, 1], [2, 2, 1], [2, 2, 1]), ([2, 2], [2, 2], [1, 2, 1], [1, 2, 2], [1, 2, 2]), ([2, 2], [2, 2], [1, 2, 1], [4, 1], [4, 1]),
                            ([2], [2], [1, 1], [2, 1, 1], [2, 1, 1]),
                            # rectangular requested modes: column-only / row-only splits, wide and tall modes kept as they are
                            ([4], [4], [1, 1], [4, 1], [2, 2]), ([2], [4], [1, 1], [2], [4]), ([2, 2], [2, 4], [1, 2, 1], [2, 2], [2, 4]), ([4], [2], [1, 1], [2, 2], [2, 1]),
                            ([2], [4], [1, 1], [1, 2], [2, 2]), ([4, 2], [2, 2], [1, 2, 1], [4, 2], [2, 2]), ([2, 2], [4, 2], [1, 2, 1], [2, 2], [4, 2]), ([1, 2], [4, 2], [1, 2, 1], [1, 2], [4, 2])]:
        s = {'N': N, 'M': M, 'R': R, 'patterns': pats_for(N, R, rng, M=M, target=(tM, tN)), 'target_M': tM, 'target_N': tN}
        cs.append({'scen': 'tt_reshape', 's': s})
        cs.append({'scen': 'tt_reshape', 's': dict(s, eps='default')})
    # ---- permute
    for N, R in [([2, 3], [1, 2, 1]), ([2, 2, 3], [1, 2, 2, 1]), ([3, 2, 2], [1, 2, 2, 1]), ([2, 1, 3], [1, 2, 2, 1]), ([2, 2, 2, 2], [1, 2, 2, 2, 1])] + \
                ([([2, 3, 2, 2], [1, 2, 2, 2, 1]), ([2, 2, 2, 2, 2], [1, 2, 2, 2, 2, 1])] if th else []):
        d = len(N)
        perms = list(itertools.permutations(range(d)))
        perms = perms if (d <= 3 or th and d <= 4) else _pick(perms, 6 if not th else 16, rng)
        for dims in perms:
            s = {'N': N, 'R': R, 'patterns': pats_for(N, R, rng), 'dims': list(dims)}
            if d >= 3:
                s['sym_cores'] = sorted(rng.sample(range(d), 2))
            cs.append({'scen': 'tt_permute', 's': s})
        cs.append({'scen': 'tt_permute', 's': dict(s, eps='default')})
    for M, N, R in [([2, 2], [2, 3], [1, 2, 1]), ([2, 1, 2], [1, 2, 2], [1, 2, 2, 1])]:
        for dims in itertools.permutations(range(len(N))):
            s = {'N': N, 'M': M, 'R': R, 'patterns': pats_for(N, R, rng, M=M), 'dims': list(dims)}
            if len(N) >= 3:
                s['sym_cores'] = [1]
            cs.append({'scen': 'tt_permute', 's': s})
    # ---- histories: the same object transformed twice (permute/permute, permute/reshape, reshape/permute, reshape/reshape)
    for N, R, first, then in [([2, 3], [1, 2, 1], ('permute', [1, 0]), ('permute', [1, 0])), ([2, 2, 3], [1, 2, 2, 1], ('permute', [2, 0, 1]), ('permute', [1, 2, 0])),
                              ([2, 2, 3], [1, 2, 2, 1], ('permute', [1, 0, 2]), ('reshape', [4, 3])), ([2, 2, 3], [1, 2, 2, 1], ('reshape', [4, 3]), ('permute', [2, 1, 0])),
                              ([4, 2], [1, 2, 1], ('reshape', [2, 2, 2]), ('reshape', [2, 4])), ([2, 3], [1, 2, 1], ('reshape', [6]), ('permute', [1, 0]))]:
        for ek in ('sym', 'default'):
            s = {'N': N, 'R': R, 'patterns': pats_for(N, R, rng, target=first[1] if first[0] == 'reshape' else None), 'then': list(then)}
            if ek == 'default':
                s['eps'] = 'default'
            if first[0] == 'permute':
                cs.append({'scen': 'tt_permute', 's': dict(s, dims=first[1])})
            else:
                cs.append({'scen': 'tt_reshape', 's': dict(s, target=first[1])})
    # ---- QTT
    for N, R in [([4], [1, 1]), ([4, 2], [1, 2, 1]), ([2, 4], [1, 2, 1]), ([4, 4], [1, 2, 1]), ([8], [1, 1]), ([2, 2], [1, 2, 1]), ([8, 2], [1, 2, 1])] + \
                ([([4, 4, 2], [1, 2, 2, 1]), ([16], [1, 1]), ([8, 4], [1, 2, 1])] if th else []):
        import math
        s = {'N': N, 'R': R, 'patterns': pats_for(N, R, rng, target=[2] * sum(int(round(math.log2(n))) for n in N))}
        cs.append({'scen': 'tt_to_qtt', 's': s})
        cs.append({'scen': 'tt_to_qtt', 's': dict(s, eps='default')})
    cs.append({'scen': 'tt_to_qtt', 's': {'N': [9], 'R': [1, 1], 'patterns': pats_for([9], [1, 1], rng), 'mode_size': 3}})
    cs.append({'scen': 'tt_to_qtt', 's': {'N': [9, 3], 'R': [1, 2, 1], 'patterns': pats_for([9, 3], [1, 2, 1], rng), 'mode_size': 3}})
    for M, N, R in [([4], [4], [1, 1]), ([2, 4], [2, 4], [1, 2, 1]), ([2, 2], [2, 2], [1, 2, 1])]:
        s = {'N': N, 'M': M, 'R': R, 'patterns': pats_for(N, R, rng, M=M)}
        cs.append({'scen': 'tt_to_qtt', 's': s})
        cs.append({'scen': 'tt_to_qtt', 's': dict(s, eps='default')})
    # ---- sign-free / complex entries around singleton modes (the 1x1 QR factors of rl_orthogonal are signs / phases there)
    for dt in ('float64', 'complex128'):
        for N, t in [([2, 2, 1], [4]), ([2, 2, 1], [2, 2]), ([1, 2, 2], [4]), ([1, 2, 2], [2, 2]), ([2, 1, 2], [4]), ([2, 2, 1, 1], [4]), ([2, 2], [1, 4, 1]), ([2, 2], [4, 1, 1]),
                     ([1, 1, 3], [3]), ([3, 1, 1], [3, 1])]:
            cs.append({'scen': 'tt_reshape', 's': {'N': N, 'R': [1] * (len(N) + 1), 'patterns': [], 'general': True, 'target': t, 'dtype': dt, 'eps': 'default'}})
        for N, dims in [([2, 1], [1, 0]), ([2, 3], [1, 0]), ([2, 1, 2], [2, 0, 1]), ([2, 2, 1], [2, 1, 0])]:
            cs.append({'scen': 'tt_permute', 's': {'N': N, 'R': [1] * (len(N) + 1), 'patterns': [], 'general': True, 'dims': dims, 'dtype': dt, 'eps': 'default'}})
    cs.append({'scen': 'tt_reshape', 's': {'M': [2, 1], 'N': [2, 1], 'R': [1, 1, 1], 'patterns': [], 'general': True, 'target_M': [2], 'target_N': [2], 'dtype': 'complex128', 'eps': 'default'}})
    # ---- complex copies of a sample of the structurally-orthogonal cases (fixed rational unit phases on the symbolic magnitudes)
    cplx = [c for c in cs if c['scen'] in ('tt_reshape', 'tt_permute', 'tt_to_qtt') and not c['s'].get('general')]
    for c in _pick(cplx, 24 if not th else 60, rng):
        cs.append({'scen': c['scen'], 's': dict(c['s'], dtype='complex128')})
    # qtt_to_tens: arbitrary cores (Z-scalars)
    Z = {'scalar_mode': 'Z'}
    for N, R, orig in [([2, 2], [1, 2, 1], [4]), ([2, 2, 2], [1, 2, 2, 1], [4, 2]), ([2, 2, 2], [1, 2, 3, 1], [2, 4]), ([2, 2, 2], [1, 2, 2, 1], [8]),
                       ([2, 2, 2, 2], [1, 2, 2, 2, 1], [4, 4]), ([2, 2, 2], [1, 2, 2, 1], [2, 2, 2]), ([3, 3, 2], [1, 2, 2, 1], [9, 2])]:
        cs.append({'scen': 'tt_qtt_to_tens', 's': {'N': N, 'R': R, 'orig': orig}, 'opts': Z})
    # single-precision dtypes (the factorizations must run in the operand's own field: complex64 stays complex)
    for dt in ('complex64', 'float32'):
        pp = pats_for([2, 3], [1, 2, 1], rng)
        cs.append({'scen': 'tt_permute', 's': {'N': [2, 3], 'R': [1, 2, 1], 'patterns': pp, 'dims': [1, 0], 'dtype': dt, 'eps': 'default'}})
        pm = pats_for([2, 2], [1, 2, 1], rng, M=[2, 1])
        cs.append({'scen': 'tt_permute', 's': {'N': [2, 2], 'M': [2, 1], 'R': [1, 2, 1], 'patterns': pm, 'dims': [1, 0], 'dtype': dt, 'eps': 'default'}})
        pr = pats_for([4, 2], [1, 2, 1], rng, target=[2, 2, 2])
        cs.append({'scen': 'tt_reshape', 's': {'N': [4, 2], 'R': [1, 2, 1], 'patterns': pr, 'target': [2, 2, 2], 'dtype': dt, 'eps': 'default'}})
        cs.append({'scen': 'tt_to_qtt', 's': {'N': [4, 2], 'R': [1, 2, 1], 'patterns': pr, 'dtype': dt, 'eps': 'default'}})
    # operators of order 4: permutations whose bubble-sort passes swap at positions that are not adjacent to the previous swap
    for M, N, R in [([2, 1, 1, 2], [1, 2, 2, 1], [1, 2, 2, 2, 1])]:
        for dims in ([0, 1, 3, 2], [0, 3, 1, 2], [3, 0, 1, 2], [1, 0, 3, 2], [1, 3, 0, 2], [3, 1, 0, 2]) if th else ([0, 1, 3, 2], [3, 0, 1, 2], [1, 0, 3, 2]):
            s = {'N': N, 'M': M, 'R': R, 'patterns': pats_for(N, R, rng, M=M), 'dims': list(dims), 'sym_cores': [1], 'eps': 'default'}
            cs.append({'scen': 'tt_permute', 's': s})
    # the same with a bond matrix that is not symmetric (cyclic permutation with distinct magnitudes): a transposed absorption is visible
    cyc = [[[0, 0, 0], [0, 1, 1], [0, 2, 2]], [[0, 0, 1], [1, 0, 2], [2, 0, 0]], [[0, 0, 0], [1, 1, 0], [2, 2, 0]]]
    for t in ([9], [3, 3]):
        cs.append({'scen': 'tt_reshape', 's': {'N': [3, 1, 3], 'R': [1, 3, 3, 1], 'patterns': cyc, 'target': t}})
        cs.append({'scen': 'tt_reshape', 's': {'N': [3, 1, 3], 'R': [1, 3, 3, 1], 'patterns': cyc, 'target': t, 'eps': 'default'}})
    # sources with a singleton mode inside a group of modes that is merged (the singleton core is a bond matrix; equal and unequal ranks around it)
    for N, R, tgts in [([2, 1, 2], [1, 2, 2, 1], ([4], [2, 2], [1, 4])), ([2, 1, 3], [1, 2, 2, 1], ([6], [2, 3])), ([2, 1, 2], [1, 2, 1, 1], ([4],))] + ([([2, 2, 1, 2], [1, 2, 2, 2, 1], ([2, 4], [4, 2]))] if th else []):
        for t in tgts:
            s = {'N': N, 'R': R, 'patterns': pats_for(N, R, rng, target=t), 'target': t}
            cs.append({'scen': 'tt_reshape', 's': s})
            cs.append({'scen': 'tt_reshape', 's': dict(s, eps='default')})
    return cs


def opts(tier):
    return {'logic': 'QF_NRA', 'qtimeout_ms': 20000, 'final_timeout_ms': 60000 if tier == 'quick' else 240000,
            'max_paths': 400 if tier == 'quick' else 3000, 'case_timeout_s': 150 if tier == 'quick' else 1500,
            'scalar_mode': 'A', 'setup': {'factor_mode': 'exact', 'signs': False}}


def sig(case, label):
    s = case['s']
    sc = case['scen']
    kind = 'ttm' if 'M' in s else 'tt'
    extra = ''
    if sc == 'tt_reshape' and 'M' not in s:
        extra = ':trailing1' if s['N'][-1] == 1 else ''
    if s.get('then'):
        extra += ':then_' + s['then'][0]
    return '%s:%s:%s%s:%s' % (sc, kind, s.get('eps', 'sym'), extra, label)


def meta(tier):
    from .. import loader
    tt = loader.load()
    import torchtt._decomposition as dec
    fns = [tt.reshape, tt.permute, tt.TT.to_qtt, tt.TT.qtt_to_tens, dec.rl_orthogonal, dec.to_tt, dec.mat_to_tt, dec.round_tt, dec.rank_chop]
    return {
        'functions': loader.functions_encoded(fns), 'sig': sig,
        'bounds': 'reshape: sources with numel <= 16 (thorough 24) into ordered factorisations/merges with singleton modes inserted at the front, middle and end, tensors and operators; '
                  'permute: all permutations of orders 2..3, sample for 4 (thorough: all of 4, sample of 5); to_qtt for power-of-2 (and 3) shapes, tensors and square operators; qtt_to_tens on '
                  'arbitrary symbolic cores; inputs: structurally-orthogonal TT objects with symbolic positive magnitudes (float64, and complex128 with fixed rational unit phases per entry), rank-1 objects with arbitrary sign-free real / arbitrary complex entries around singleton modes; eps symbolic in (0, 0.1] and the default; six two-call histories on one object (permute/permute, permute/reshape, reshape/permute, reshape/reshape)',
        'outside': 'inputs outside the structurally-orthogonal class; the sign/phase freedom of LAPACK QR beyond the modelled representative (positive real diagonal of R; LAPACK-exact for one-row inputs); IEEE rounding',
        'assumptions': ['torch.linalg.qr/svd replaced by the exact models of tv/factor.py (Gram-Schmidt with positive diagonal; structural SVD)', 'symtorch validated per run against real torch',
                        'z3 sat/unsat verdicts; unknown counted inconclusive'],
        'tv_max': 50,
        'explanation': 'Per path z3 decides EXISTS magnitudes, eps. requested shape clause or ||out - reshape(in)||^2 <= (c eps)^2 ||in||^2 fails (c=2 reshape/QTT, c=1 permute); with the default eps the '
                       'bound is roundoff level, i.e. exact equality in the model, which decides the "never changes sign or scale" clause.',
    }
