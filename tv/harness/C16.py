"""C16 — Riemannian projection is an orthogonal projector (gradient clause under the autograd model)."""

THOROUGH_SEEDS = 4


def minimal_ranks(N, R, pats, M=None):
    """the TT ranks of the sparse base point equal the (term) ranks of the unfoldings of its dense tensor"""
    from ..scen.c02 import dense_pattern
    from ..scen.c01 import unfolding_generic_rank
    dp = dense_pattern(N, R, pats, M)
    modes = list(N) if M is None else [m * n for m, n in zip(M, N)]
    return all(unfolding_generic_rank(modes, dp, k) == R[k] for k in range(1, len(N)))


def cases(tier, seed):
    import random
    from .C02 import gen_tt_pattern, all_ranks_used
    rng = random.Random(seed + 16)
    th = tier == 'thorough'
    cs = []
    # (a) arbitrary sign-free core entries, rank-1 base points (every QR input is a single column)
    structs = [([2, 2], [1, 1, 1], None), ([3, 2], [1, 1, 1], None), ([2, 2, 2], [1, 1, 1, 1], None), ([2, 2], [1, 1, 1], [2, 1]), ([1, 2], [1, 1, 1], [2, 2]),
               ([2, 1], [1, 1, 1], None), ([1, 3], [1, 1, 1], None), ([2, 1, 2], [1, 1, 1, 1], None), ([2, 2, 1], [1, 1, 1, 1], None), ([2, 1], [1, 1, 1], [1, 2])]
    if th:
        structs += [([2, 2, 2, 2], [1, 1, 1, 1, 1], None), ([3, 3, 2], [1, 1, 1, 1], None)]
    # (b) sparse base points of rank 2..3 with symbolic positive magnitudes (z, w still arbitrary)
    sparse = [([2, 2], [1, 2, 1], None), ([2, 3], [1, 2, 1], None), ([3, 3], [1, 3, 1], None), ([2, 2, 2], [1, 2, 2, 1], None), ([2, 2, 2], [1, 2, 1, 1], None), ([2, 2], [1, 2, 1], [2, 1]),
              ([2, 2, 1], [1, 2, 1, 1], None), ([2, 1, 2], [1, 2, 2, 1], None), ([2, 2, 2, 2], [1, 2, 1, 2, 1], None), ([2, 2, 2], [1, 1, 2, 1], None)]
    if th:
        sparse += [([2, 2, 2, 2], [1, 2, 2, 2, 1], None), ([3, 2, 3], [1, 3, 2, 1], None), ([2, 2, 2], [1, 2, 2, 1], [1, 2, 1])]
    for N, Rx, M in sparse:
        for rep in range(1 if not th else 3):
            p = None
            for _ in range(300):
                q_ = gen_tt_pattern(N, Rx, rng, M=M, dense_slices=True)
                if all_ranks_used(q_, Rx) and minimal_ranks(N, Rx, q_, M):
                    p = q_
                    break
            if p is None:
                continue        # no minimal-rank base point found for this structure: the property assumes minimal ranks
            structs.append((N, Rx, M, [[list(q) for q in pk] for pk in p]))
    for st in structs:
        N, Rx, M = st[0], st[1], st[2]
        pats = st[3] if len(st) > 3 else None
        d = len(N)
        for what in ('fixes_base_point', 'idempotent', 'linear', 'selfadjoint', 'residual_orthogonal'):
            for Rz in ([[1] * (d + 1)] + ([[1] + [2] * (d - 1) + [1]] if (max(Rx) == 1 or th) and d == 2 else [])):
                s = {'N': N, 'Rx': Rx, 'Rz': Rz, 'Rw': [1] * (d + 1), 'what': what}
                if M:
                    s['M'] = M
                if pats:
                    s['patterns'] = pats
                cs.append({'scen': 'riem_projection', 's': s})
                if what == 'fixes_base_point':
                    break
    # riemannian_gradient through the autograd model
    AD = {'setup': {'factor_mode': 'exact', 'autograd': True}}
    for st in structs:
        N, Rx, M = st[0], st[1], st[2]
        pats = st[3] if len(st) > 3 else None
        if M is not None and not th:
            if pats:
                continue
        for fk in ('quadratic', 'linear', 'quartic'):
            if fk == 'quartic' and (N != [2, 2] or M is not None or max(Rx) > 1) and not th:
                continue
            if fk == 'quartic' and th and (len(N) > 2 or max(Rx) > 2 or M is not None):
                continue
            s = {'N': N, 'Rx': Rx, 'f': fk}
            if M:
                s['M'] = M
            if pats:
                s['patterns'] = pats
            cs.append({'scen': 'riem_gradient', 's': s, 'opts': AD})
            if fk == 'linear' or (fk == 'quadratic' and th):
                cs.append({'scen': 'riem_gradient', 's': dict(s, before='gradient'), 'opts': AD})
                if th or not pats:
                    cs.append({'scen': 'riem_gradient', 's': dict(s, before='projection'), 'opts': AD})
    # the projected tensor is the output of round() (right-orthogonal cores) while the base point is not orthogonal
    for N, M in [([2, 2], None), ([2, 2, 2], None), ([2, 2], [2, 1])]:
        d = len(N)
        for what in ('selfadjoint', 'residual_orthogonal', 'linear'):
            sd = {'N': N, 'Rx': [1] * (d + 1), 'Rz': [1] * (d + 1), 'Rw': [1] * (d + 1), 'what': what, 'z_rounded': True}
            if M:
                sd['M'] = M
            cs.append({'scen': 'riem_projection', 's': sd})
    # the projected tensor is stored in the block form of tangent vectors, for frames unrelated to the base point
    for N, Rx in [([2, 2], [1, 1, 1]), ([3, 2], [1, 1, 1]), ([2, 2, 2], [1, 1, 1, 1])]:
        d = len(N)
        for what in ('selfadjoint', 'residual_orthogonal', 'linear'):
            cs.append({'scen': 'riem_projection', 's': {'N': N, 'Rx': Rx, 'Rz': [1] + [2] * (d - 1) + [1], 'Rw': [1] * (d + 1), 'what': what, 'z_form': 'delta'}})
    # base points whose cores are views: transposed operators (permuted strides) and strided slices; order 3 so that an interior core exists
    for N, M, via in [([2, 2, 1], [1, 2, 2], 'transposed'), ([2, 2], [2, 1], 'transposed'), ([2, 2, 2], None, 'sliced')] + ([([2, 2, 2], [2, 2, 1], 'transposed')] if th else []):
        d = len(N)
        base = {'N': N, 'Rx': [1] * (d + 1), 'via': via}
        if M:
            base['M'] = M
        for fk in ('quadratic', 'linear'):
            cs.append({'scen': 'riem_gradient', 's': dict(base, f=fk), 'opts': AD})
        for what in ('fixes_base_point', 'selfadjoint'):
            cs.append({'scen': 'riem_projection', 's': dict(base, Rz=[1] * (d + 1), Rw=[1] * (d + 1), what=what)})
    return cs


def opts(tier):
    return {'logic': 'QF_NRA', 'qtimeout_ms': 20000, 'final_timeout_ms': 60000 if tier == 'quick' else 240000, 'max_paths': 50,
            'case_timeout_s': 200 if tier == 'quick' else 600, 'scalar_mode': 'A', 'setup': {'factor_mode': 'exact'}}


def sig(case, label):
    s = case['s']
    if case['scen'] == 'riem_gradient':
        return 'riem_gradient:%s:%s:%s' % ('ttm' if 'M' in s else 'tt', s['f'], label)
    return 'riem_projection:%s:%s%s:%s' % ('ttm' if 'M' in s else 'tt', s['what'], ':z_' + s['z_form'] if s.get('z_form') else '', label)


def meta(tier):
    from .. import loader
    tt = loader.load()
    import torchtt._decomposition as dec
    fns = [tt.manifold.riemannian_projection, tt.manifold.riemannian_gradient, tt.manifold._delta2cores, dec.lr_orthogonal, dec.rl_orthogonal]
    return {
        'functions': loader.functions_encoded(fns), 'sig': sig,
        'bounds': 'base points x of order 2..3 (thorough 4): (a) rank 1 with arbitrary sign-free symbolic entries, (b) ranks 2..3 with sparse cores (scaled partial permutation per slice) and symbolic positive magnitudes; TT tensors and TT matrices; z, w arbitrary symbolic TT objects of rank 1 (2 for order 2 over rank-1 base points); '
                  'alpha, beta symbolic; z also in the block form of tangent vectors for frames unrelated to the base point; QR by exact symbolic Gram-Schmidt',
        'outside': 'rank-deficient base points (the Gram-Schmidt pivots are assumed non-zero: minimal-rank precondition of the property); dense base points of rank >= 2 (expression blow-up in exact symbolic QR); IEEE rounding; riemannian_gradient: f from {quadratic misfit, linear functional, quartic}, derivative of torch primitives trusted (autograd model of C15)',
        'assumptions': ['torch.linalg.qr replaced by exact symbolic Gram-Schmidt (positive diagonal)', 'symtorch validated per run against real torch', 'z3 sat/unsat verdicts; unknown counted inconclusive'],
        'tv_max': 40,
        'explanation': 'Each projector identity is an equality of rational functions (with square roots) of all core entries; after clearing denominators z3 decides EXISTS entries . lhs != rhs.',
    }
