"""C15 — gradients through TT operations match the dense derivative (autograd model, DESIGN 4 C15)."""

EXPRS = ['full', 'add', 'sub_mul', 'scalar_ops', 'neg_kron', 'sum_all', 'sum_index', 'dot', 'dot_sq', 'norm_sq', 'norm', 'matvec', 'matmat', 'bilinear',
         'getitem', 'apply_mask', 'cat', 'pad', 'pad_short', 'diag', 'mprod', 'mprod_list', 'depth3', 'scale_by_dot', 'scale_by_sum', 'add_tracked_scalar', 'copy_forms']


def cases(tier, seed):
    th = tier == 'thorough'
    cs = []
    structs = [([2], [1, 1], [1, 1]), ([2, 2], [1, 2, 1], [1, 1, 1]), ([2, 3], [1, 2, 1], [1, 2, 1])]
    if th:
        structs += [([2, 2, 2], [1, 2, 2, 1], [1, 1, 2, 1]), ([3, 2], [1, 2, 1], [1, 3, 1]), ([2, 1, 2], [1, 2, 2, 1], [1, 1, 1, 1])]
    for N, R, R2 in structs:
        d = len(N)
        for e in EXPRS:
            if e in ('matmat',) and d > 2 and not th:
                continue
            base = {'N': N, 'R': R, 'R2': R2, 'RA': [1] + [2] * (d - 1) + [1], 'expr': e}
            uses_y = e in ('add', 'sub_mul', 'neg_kron', 'sum_all', 'dot', 'dot_sq', 'norm', 'bilinear', 'cat', 'depth3', 'scale_by_dot', 'scale_by_sum', 'add_tracked_scalar', 'copy_forms')
            uses_A = e in ('matvec', 'matmat', 'bilinear')
            # which operands / cores are tracked
            variants = [({'x': None}, 'grad')]
            if d >= 2:
                variants.append(({'x': [d - 1]}, 'grad'))
                variants.append(({'x': [0]}, 'grad'))
            if uses_y:
                variants.append(({'y': None}, 'grad'))
                variants.append(({'x': None, 'y': None}, 'grad_list'))
                variants.append(({'x': None, 'y': None}, 'grad_list_nested'))
            if uses_A:
                variants.append(({'A': None}, 'grad'))
                if e != 'matmat':
                    variants.append(({'A': None, 'x': None}, 'grad_list'))
            if d >= 2 and e in EXPRS[:3] + ['dot', 'norm']:
                # core selections in the caller's order: decreasing, negative, repeated
                variants.append(({'x': [d - 1, 0]}, 'grad'))
                variants.append(({'x': [-1, 0]}, 'grad'))
                variants.append(({'x': [d - 1, d - 1, 0]}, 'grad'))
            if e == 'matmat':
                variants = [({'A': None}, 'grad')]
            for tr, api in variants:
                cs.append({'scen': 'ad_grad', 's': dict(base, tracked=tr, api=api)})
            if e in EXPRS[:2] + ['dot']:
                cs.append({'scen': 'ad_grad', 's': dict(base, tracked={'x': None}, api='grad', unwatch=True)})
                if uses_y:
                    cs.append({'scen': 'ad_grad', 's': dict(base, tracked={'x': None, 'y': None}, api='grad_list', watch='list', unwatch=True)})
    # operands that are views (non-contiguous cores): strided slices, transposed operators
    for N, R, R2 in [([2, 2], [1, 2, 1], [1, 1, 1]), ([2, 3], [1, 2, 1], [1, 2, 1])]:
        d = len(N)
        base = {'N': N, 'R': R, 'R2': R2, 'RA': [1] + [2] * (d - 1) + [1]}
        for e, trs in (('matvec', ({'A': None}, {'x': None})), ('bilinear', ({'A': None}, {'y': None})), ('matmat', ({'A': None},)), ('dot', ({'x': None},)),
                       ('add', ({'x': None},)), ('sub_mul', ({'y': None},)), ('full', ({'x': None},)), ('norm_sq', ({'x': None},))):
            for tr in trs:
                for via in (('sliced', 'transposed') if 'A' in tr else ('sliced',)):
                    cs.append({'scen': 'ad_grad', 's': dict(base, expr=e, tracked=tr, api='grad', via='sliced' if via == 'sliced' else None, via_A=via)})
    # grad_list over tensors of different order (kron), lower order first / last / in between is decided by the dict order
    for trk in ({'y': None, 'x': None}, {'x': None, 'y': None}):
        for api in ('grad_list', 'grad_list_nested'):
            cs.append({'scen': 'ad_grad', 's': {'N': [2, 2], 'R': [1, 2, 1], 'N2': [3], 'R2': [1, 1], 'RA': [1, 2, 1], 'expr': 'neg_kron', 'tracked': trk, 'api': api}})
            cs.append({'scen': 'ad_grad', 's': {'N': [2], 'R': [1, 1], 'N2': [2, 3], 'R2': [1, 2, 1], 'RA': [1, 1], 'expr': 'neg_kron', 'tracked': trk, 'api': api}})
    # objects made by factories: every core is its own variable (also when mode sizes repeat)
    for kind, N in (('ones', [2, 2]), ('ones', [3, 3, 2]), ('zeros', [2, 2]), ('zeros', [2, 3, 2]), ('eye', [2, 2]), ('eye', [2, 3])):
        cs.append({'scen': 'ad_factory', 's': {'kind': kind, 'N': N}})
    for sin, sout, rank, batch in [([2], [2], [1, 1], []), ([2, 2], [1, 2], [1, 2, 1], [2]), ([2, 1], [2, 2], [1, 2, 1], []), ([1, 3], [1, 2], [1, 1, 1], [2]), ([2, 1, 2], [2, 1, 1], [1, 1, 1, 1], [])] + ([([2, 2, 2], [1, 2, 1], [1, 2, 2, 1], [2, 1])] if th else []):
        cs.append({'scen': 'ad_layer', 's': {'size_in': sin, 'size_out': sout, 'rank': rank, 'batch': batch}})
        cs.append({'scen': 'ad_layer', 's': {'size_in': sin, 'size_out': sout, 'rank': rank, 'batch': batch, 'eval': True}})
        d_ = len(sin)
        for fr in ([-1], list(range(d_)), [0]):          # bias frozen; all cores frozen (bias-only fine tuning); first core frozen
            cs.append({'scen': 'ad_layer', 's': {'size_in': sin, 'size_out': sout, 'rank': rank, 'batch': batch, 'frozen': fr}})
    return cs


def opts(tier):
    return {'logic': 'QF_NRA', 'qtimeout_ms': 20000, 'final_timeout_ms': 60000 if tier == 'quick' else 240000, 'max_paths': 50,
            'case_timeout_s': 200 if tier == 'quick' else 1500, 'scalar_mode': 'A', 'setup': {'factor_mode': 'exact', 'autograd': True}}


def sig(case, label):
    s = case['s']
    if case['scen'] == 'ad_factory':
        return 'ad_factory:%s:%s' % (s['kind'], label.rstrip('0123456789').rstrip('_'))
    if case['scen'] == 'ad_layer':
        return 'ad_layer:%s' % label.rstrip('0123456789').rstrip('_')
    return 'ad_grad:%s:%s:%s:%s' % (s['expr'], '+'.join(sorted(s['tracked'])), s.get('api', 'grad'), label.rstrip('0123456789').rstrip('_'))


def meta(tier):
    from .. import loader
    tt = loader.load()
    T = tt.TT
    fns = [tt.grad.watch, tt.grad.grad, tt.grad.grad_list, T.norm, T.full, T.__add__, T.__sub__, T.__mul__, T.__matmul__, T.sum, T.__getitem__, T.apply_mask, T.mprod,
           tt.dot, tt.bilinear_form, tt.cat, tt.pad, tt.diag, tt.nn.LinearLayerTT.forward]
    return {
        'functions': loader.functions_encoded(fns), 'sig': sig,
        'bounds': '%d expressions of depth 1..3 (incl. TT objects scaled by one-element tensors that depend on tracked cores) over the differentiable operations (full, +, -, *, @, scalar ops, kron, sum, dot, norm, bilinear_form, slicing, apply_mask, cat, pad, diag, mprod, TT layer) on operands '
                  'of order 1..2 (thorough 3), sizes <= 3, ranks <= 2(3); every choice of tracked operand / single tracked core; grad.grad, grad.grad_list (flat and nested); operands that are strided slices / transposed operators (non-contiguous tracked cores); all core entries symbolic' % len(EXPRS),
        'outside': 'the derivative of each torch primitive (torch autograd engine is trusted); saved-tensor version checks; float rounding; orders > 3; expressions deeper than 3',
        'assumptions': ['autograd model of tv/autograd.py: leaves = symbols, detach/item/numpy/tensor(t) = value-equal cut copies, backward = exact symbolic differentiation of the scalar expression',
                        'symtorch validated per run against real torch (values and gradients: the real replay compares torch.autograd gradients of the TT and the dense expression)',
                        'z3 sat/unsat verdicts; unknown counted inconclusive'],
        'tv_max': 60,
        'explanation': 'z3 decides EXISTS core values . d f_TT / d theta != d f_dense / d theta for every tracked core entry, under the constraints that tie cut copies to their values: '
                       'a Python-level cut of the graph (detach, item, numpy, rebuilt tensors) or a wrong grad/grad_list bookkeeping yields a model.',
    }
